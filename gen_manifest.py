#!/usr/bin/env python3
"""Regenerate MANIFEST.json from mirsym/props.py (claimed checks) + the not-applicable table."""
import json, sys
sys.path.insert(0, '/verif')
from mirsym import props as P

ALL = ['C%02d' % i for i in range(1, 21)]
NA_REASON = getattr(P, 'NOT_APPLICABLE', {})
checks = []
for pid in ALL:
    if pid not in P.PROPS or pid in NA_REASON:
        continue
    cfg = P.PROPS[pid]
    checks.append({
        'property_id': pid,
        'quick_cmd': f'./check {pid} --tier quick',
        'thorough_cmd': f'./check {pid} --tier thorough',
        'evidence_file': f'/verif/evidence/{pid}.json',
        'replay_cmd_template': './check replay {path}',
        'engine': 'mirsym',
        'level_claimed': {
            'category': 'model_checking',
            'text': cfg.get('level_text', 'Bounded symbolic execution of the crate\'s real MIR (dumped from /repo on every run) '
                            'with z3: every control-flow path of harness + implementation + reference model within the stated input '
                            'bounds is explored and each property assertion is discharged by the solver over all inputs of that path; '
                            'counterexamples and path witnesses are replayed natively against the real build.'),
            'design_ref': 'DESIGN.md section 5 ' + pid,
        },
        'level_note': cfg.get('level_note', 'Bounds as listed in evidence.coverage.bounds; trusted: rustc MIR printer, mirsym interpreter and its std '
                              'models (cross-checked by native replay of witnesses on every run), z3, reference models in harness/spec.rs.'),
        'technique': 'solver-based bounded symbolic execution of rustc MIR regenerated from /repo on every run (mirsym + z3; cvc5 re-decides a sample of the queries' + ('; Kani/CBMC harnesses over dewey_cmp as a second engine' if cfg.get('kani') else '') + '), native replay of counterexamples and path witnesses',
    })
na = [{'property_id': pid, 'reason': NA_REASON.get(pid, 'mirsym harness/models for this module not built yet in this session; '
       'Kani cannot execute this code within hours (DESIGN section 1)')} for pid in ALL if pid not in P.PROPS or pid in NA_REASON]
m = {
    'version': 1,
    'setup_cmd': './setup.sh',
    'hooks': {
        'guard': 'none (no source hooks: harness modules are mounted into a scratch copy of /repo via #[path], /repo is never edited by checks)',
        'enable': 'n/a - checks rsync /repo to a scratch directory and append `#[path] mod verif_harness` / `mod verif_in` lines there',
        'baseline_off_cmd': 'cd /repo && cargo test --workspace --no-fail-fast --offline',
        'source_commits': [],
        'add_only': True,
    },
    'engines': [{'name': 'mirsym', 'path': '/verif/mirsym', 'serves_properties': [c['property_id'] for c in checks],
                 'kind_free_text': 'forking symbolic interpreter over rustc -Zunpretty=mir text with z3 (decision-prefix replay, 16 workers), '
                                   'Python models of std calls, native replay harness'}],
    'checks': checks,
    'not_applicable': na,
    'notes': 'exit 0 = held on everything explored; 1 = VIOLATION (natively reproduced); 2 = inconclusive (model gap, engine divergence, path cap). '
             'KNOWN-FINDING lines refer to /verif/known_findings.json.',
}
json.dump(m, open('/verif/MANIFEST.json', 'w'), indent=1)
print(len(checks), 'checks;', len(na), 'not applicable')
