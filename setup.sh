#!/bin/sh
# offline setup: verify tools, run the interpreter self-test
set -e
cd "$(dirname "$0")"
command -v python3-vt >/dev/null
python3-vt -c "import z3; print('z3', z3.get_version_string())"
rustup +nightly which rustc >/dev/null
cargo --version
cargo kani --version
python3-vt -m mirsym.selftest
