import sys, time
sys.path.insert(0, '/verif')
from mirsym import driver
class FakeE:
    def __init__(self, alt=None): self.deadline=None; self.alt=alt
def fake_init(*a):
    driver._W['mk']=lambda alt=None: FakeE(alt); driver._W['E']=FakeE(); driver._W['cur']=driver._W['E']
def fake_explore(args):
    h,p,b=args
    E=driver._W['cur']
    if h=='hang' or (h=='hang-once' and E.alt is None):
        E.deadline=time.time()-1; time.sleep(100)
    return h,[{'outcome':'ok','alt':E.alt}],[],{}
driver._worker_init=fake_init; driver._explore=fake_explore
t=time.time()
with driver.HPool(3, ()) as pool:
    hs=[pool.apply_async(None, ((n,[True,False],64),)) for n in ['a','hang','b','hang-once','c']]
    while not all(h.ready() for h in hs): time.sleep(0.05)
    for h in hs: print(h.get()[0], h.get()[1][0].get('outcome'), h.get()[1][0].get('alt'), h.get()[1][0].get('msg','')[:60])
    hs=[pool.apply_async(None, ((n,[],64),)) for n in ['x','x','y','x']]
    time.sleep(0.3); hs[0].ready()
    print('cancel', pool.cancel('x'))
    while not all(h.ready() for h in hs): time.sleep(0.05)
    print([ (h.get()[0], len(h.get()[1]), h.get()[2]) for h in hs])
print('time %.1f' % (time.time()-t))
