use pkgsrc::{Pattern, PkgName};
use pkgsrc::plist::Plist;
use pkgsrc::distinfo::Distinfo;
use pkgsrc::summary::SummaryStream;
use std::io::Write;
fn m(p: &str, n: &str) -> bool { Pattern::new(p).unwrap().matches(n) }
fn main() {
    println!("C04 {{a{{b,c}},d}}-1.0 ~ ad-1.0 : {} (spec false)", m("{a{b,c},d}-1.0", "ad-1.0"));
    println!("C01 p<1.0 ~ p-1.0pre1 : {} (spec true)", m("p<1.0", "p-1.0pre1"));
    println!("C01 p<1.0 ~ p-1.0RC1 : {} (spec true)", m("p<1.0", "p-1.0RC1"));
    println!("C01 p>=1.97 ~ p-1a : {} (spec false: a=rank 1)", m("p>=1.97", "p-1a"));
    println!("C01 p<1.5 ~ p-1a : {} (spec true)", m("p<1.5", "p-1a"));
    let p = Plist::from_bytes(b"a\nbin/foo\n").unwrap();
    println!("C14 files of 'a\\nbin/foo\\n': {:?} (spec 2 entries)", p.files());
    let p = Plist::from_bytes(b"bin/foo\na").unwrap();
    println!("C14 files of 'bin/foo\\na': {:?}", p.files());
    let di = Distinfo::from_bytes(b"$NetBSD: x $\n\nSHA1 (f\xa0o.tar.gz) = abcd\nSize (f\xa0o.tar.gz) = 5 bytes\n");
    println!("C11 distfiles for name f\\xa0o.tar.gz: {:?}", di.distfiles().iter().map(|e| e.filename.clone()).collect::<Vec<_>>());
    let di = Distinfo::from_bytes(b"$NetBSD: x $\n\nSHA1 (f\xe9o.tar.gz) = abcd\n");
    println!("C10 roundtrip latin1 name: {:?}", String::from_utf8_lossy(&di.as_bytes()));
    let entry = "BUILD_DATE=x\nCATEGORIES=x\nCOMMENT=caf\u{e9}\nDESCRIPTION=x\nMACHINE_ARCH=x\nOPSYS=x\nOS_VERSION=x\nPKGNAME=a-1\nPKGPATH=a/b\nPKGTOOLS_VERSION=1\nSIZE_PKG=1\n\n";
    let b = entry.as_bytes();
    let cut = entry.find("caf").unwrap() + 4; // inside the 2-byte char
    let mut s = SummaryStream::new();
    let r1 = s.write(&b[..cut]); let r2 = s.write(&b[cut..]);
    println!("C09 split inside multibyte: {:?} {:?} entries={}", r1.map_err(|e| e.kind()), r2.map_err(|e| e.kind()), s.entries().len());
    println!("C18 {:?}", PkgName::new("foo-1.0nb2alpha").pkgrevision());
    let r = std::panic::catch_unwind(|| m("p>1", "p-12345678901234567890"));
    println!("C17 20-digit version: panicked={}", r.is_err());
    let r = std::panic::catch_unwind(|| { let mut md = pkgsrc::Metadata::new(); md.read_metadata(pkgsrc::MetadataEntry::SizePkg, "x") .is_ok() });
    println!("C17 metadata non-numeric: panicked={}", r.is_err());
}
