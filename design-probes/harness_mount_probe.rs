#![allow(dead_code, missing_docs)]
//! verification harness module (mounted into a scratch copy of the crate)
pub mod sym {
    #[inline(never)] pub fn any_u8(_tag: &'static str) -> u8 { 0 }
    #[inline(never)] pub fn any_i64(_tag: &'static str) -> i64 { 0 }
    #[inline(never)] pub fn any_ascii_str(_tag: &'static str, _maxlen: usize) -> String { String::new() }
    #[inline(never)] pub fn assume(_c: bool) {}
    #[inline(never)] pub fn check(_id: &'static str, _c: bool) {}
}
use crate::dewey::{dewey_cmp, DeweyOp, DeweyVersion};

fn ref_tokenize(s: &str) -> (Vec<i64>, i64) {
    let b = s.as_bytes();
    let mut v = Vec::new();
    let mut nb = 0i64;
    let mut i = 0;
    while i < b.len() {
        let c = b[i];
        if c.is_ascii_digit() {
            let mut n: i64 = 0;
            while i < b.len() && b[i].is_ascii_digit() { n = n * 10 + (b[i] - b'0') as i64; i += 1; }
            v.push(n);
        } else if c == b'.' || c == b'_' { v.push(0); i += 1; }
        else { i += 1; }
    }
    (v, nb)
}

pub fn h_tokenizer() {
    let s = sym::any_ascii_str("s", 4);
    let dv = DeweyVersion::new(&s);
    let (v, nb) = ref_tokenize(&s);
    let expect = DeweyVersion::new("1");
    sym::check("tok", dewey_cmp(&dv, &DeweyOp::GE, &expect) || v.len() < 9 || nb == 0);
    assert!(v.len() < 10);
    assert_eq!(nb, 0, "nb");
}
