"""Spike: forking symbolic interpreter over rustc MIR text with z3."""
import re, sys, time
import z3
from mirparse import parse_mir, parse_stmt

WIDTH = {'u8':8,'i8':8,'u16':16,'i16':16,'u32':32,'i32':32,'u64':64,'i64':64,'usize':64,'isize':64,'u128':128,'i128':128,'char':32,'bool':1}
def signed(t): return t[0] == 'i'

class I:  # integer / char scalar
    __slots__ = ('t', 'v')
    def __init__(s, t, v): s.t = t; s.v = v
    def conc(s): return isinstance(s.v, int)
    def z(s): return z3.BitVecVal(s.v, WIDTH[s.t]) if isinstance(s.v, int) else s.v
    def __repr__(s): return f'{s.v}_{s.t}'
class Agg:
    __slots__ = ('name', 'variant', 'fields')
    def __init__(s, name, variant, fields): s.name = name; s.variant = variant; s.fields = fields
    def __repr__(s): return f'{s.name}#{s.variant}{s.fields}'
class Ref:
    __slots__ = ('cont', 'key')
    def __init__(s, cont, key): s.cont = cont; s.key = key
    def get(s): return s.cont[s.key]
    def set(s, v): s.cont[s.key] = v
class StrV:   # &str / &[u8]
    __slots__ = ('buf', 'a', 'b')
    def __init__(s, buf, a, b): s.buf = buf; s.a = a; s.b = b
    def bytes(s): return s.buf[s.a:s.b]
    def __len__(s): return s.b - s.a
class StringV:
    __slots__ = ('buf',)
    def __init__(s, buf=None): s.buf = buf if buf is not None else []
class VecV:
    __slots__ = ('items',)
    def __init__(s, items=None): s.items = items if items is not None else []
class Iter:   # generic python-side iterator object
    def __init__(self_, kind, **kw): self_.kind = kind; self_.__dict__.update(kw)
UNIT = Agg('()', 0, [])
class Panic(Exception): pass
class Infeasible(Exception): pass

VARIANTS = {'None': 0, 'Some': 1, 'Ok': 0, 'Err': 1, 'Less': -1, 'Equal': 0, 'Greater': 1}

def mkbool(b): return b
def is_conc(x): return isinstance(x, (int, bool))

class Engine:
    def __init__(self, fns, enum_variants):
        self.fns = fns; self.enumv = enum_variants
        self.parsed = {}
        self.solver = z3.Solver()
        self.nqueries = 0; self.qtime = 0.0
    # ---- branching -------------------------------------------------
    def start(self, prefix):
        self.prefix = prefix; self.k = 0; self.pending = []; self.pc = []
    def check(self, *c):
        self.nqueries += 1; t = time.time()
        r = self.solver.check(*c); self.qtime += time.time() - t
        return r == z3.sat
    def branch(self, cond):
        if isinstance(cond, bool): return cond
        cond = z3.simplify(cond)
        if z3.is_true(cond): return True
        if z3.is_false(cond): return False
        if self.k < len(self.prefix):
            d = self.prefix[self.k]
        else:
            t_ok = self.check(cond); f_ok = self.check(z3.Not(cond))
            if t_ok and f_ok:
                self.pending.append(list(self.taken) + [False]); d = True
            elif t_ok: d = True
            elif f_ok: d = False
            else: raise Infeasible()
        self.taken.append(d); self.k += 1
        c = cond if d else z3.Not(cond)
        self.solver.add(c); self.pc.append(c)
        return d
    def assume(self, cond):
        if isinstance(cond, bool):
            if not cond: raise Infeasible()
            return
        self.solver.add(cond); self.pc.append(cond)
        if not self.check(): raise Infeasible()
    def explore(self, entry):
        """entry(engine) -> result ; yields (result|Panic, pc, taken)"""
        work = [[]]; results = []
        while work:
            prefix = work.pop()
            self.solver.push(); self.taken = []; self.start(prefix)
            try:
                r = ('ok', entry(self))
            except Panic as p: r = ('panic', str(p))
            except Infeasible: r = None
            if r is not None: results.append((r, list(self.pc), list(self.taken), self.solver.model() if self.check() else None))
            work.extend(self.pending)
            self.solver.pop()
        return results
    # ---- MIR execution -------------------------------------------
    def get_parsed(self, f):
        if f.name not in self.parsed:
            self.parsed[f.name] = {b: [parse_stmt(s) for s in st] for b, st in f.blocks.items()}
        return self.parsed[f.name]
    def call_fn(self, f, args):
        blocks = self.get_parsed(f)
        L = {}
        for i, a in enumerate(args): L[i + 1] = a
        bb = 0
        while True:
            for st in blocks[bb]:
                k = st[0]
                if k == 'nop': continue
                if k == 'assign':
                    self.store(L, st[1], self.rvalue(L, st[2], f)); continue
                if k == 'goto': bb = st[1]; break
                if k == 'switch':
                    v = self.operand(L, st[1]); tg = st[2]
                    nxt = None
                    if isinstance(v, bool): v = I('bool', int(v))
                    if isinstance(v, I) and v.conc():
                        key = str(v.v); nxt = tg.get(key, tg.get('otherwise'))
                    else:
                        zv = v.z() if isinstance(v, I) else z3.If(v, z3.BitVecVal(1, 1), z3.BitVecVal(0, 1))
                        w = zv.size()
                        for key, t in tg.items():
                            if key == 'otherwise': continue
                            if self.branch(zv == z3.BitVecVal(int(key), w)): nxt = t; break
                        if nxt is None: nxt = tg['otherwise']
                    bb = nxt; break
                if k == 'call':
                    _, dest, fname, aops, tg = st
                    argv = [self.operand(L, a) for a in aops]
                    r = self.dispatch(fname, argv, L)
                    if dest is not None: self.store(L, dest, r)
                    if 'return' not in tg: raise Panic('diverging call returned: ' + fname)
                    bb = tg['return']; break
                if k == 'drop': bb = st[2]['return']; break
                if k == 'assert':
                    c = self.operand(L, st[1]); c = self.tobool(c)
                    if st[2]: c = (not c) if isinstance(c, bool) else z3.Not(c)
                    if not self.branch(c): raise Panic('assert failed: ' + st[3])
                    bb = st[4]['success']; break
                if k == 'term':
                    if st[1] == 'return': return L.get(0, UNIT)
                    raise Panic('terminator ' + st[1])
                if k == 'setdiscr':
                    pl = self.load(L, st[1]); pl.variant = st[2]; continue
                if k == 'assume': continue
                raise NotImplementedError(st)
            else:
                raise RuntimeError('fell off block')
    def tobool(self, v):
        if isinstance(v, I): return bool(v.v) if v.conc() else (v.v == 1)
        return v
    # places
    def resolve(self, L, p):
        k = p[0]
        if k == 'local': return (L, p[1])
        if k == 'deref':
            r = self.load(L, p[1])
            if isinstance(r, Ref): return (r.cont, r.key)
            return ([r], 0)      # fat pointer views (StrV) : deref yields itself
        if k == 'field':
            c, key = self.resolve(L, p[1])
            v = c.get(key) if isinstance(c, dict) else c[key]
            if v is None:
                v = Agg('?', 0, []);
                c[key] = v
            while len(v.fields) <= p[2]: v.fields.append(None)
            return (v.fields, p[2])
        if k == 'downcast': return self.resolve(L, p[1])
        if k == 'index':
            v = self.load(L, p[1]); i = L[p[2]]
            assert i.conc()
            items = v.items if isinstance(v, VecV) else v.fields
            return (items, i.v)
        if k == 'cindex':
            v = self.load(L, p[1]); items = v.items if isinstance(v, VecV) else v.fields
            return (items, (len(items) - p[2]) if p[3] else p[2])
        raise NotImplementedError(p)
    def load(self, L, p):
        c, k = self.resolve(L, p)
        return c[k]
    def store(self, L, p, v):
        c, k = self.resolve(L, p); c[k] = v
    def operand(self, L, o):
        k = o[0]
        if k in ('copy', 'move'):
            v = self.load(L, o[1])
            if k == 'copy' and isinstance(v, Agg): v = Agg(v.name, v.variant, list(v.fields))
            return v
        c = o[1]
        if c[0] == 'int': return I(c[2], c[1] & ((1 << WIDTH[c[2]]) - 1) if not signed(c[2]) else c[1])
        if c[0] == 'bool': return c[1]
        if c[0] == 'unit': return UNIT
        if c[0] in ('str', 'bstr'):
            b = [I('u8', x) for x in c[1]]; return StrV(b, 0, len(b))
        if c[0] == 'char': return I('char', c[1])
        if c[0] == 'path': return self.path_const(c[1])
        raise NotImplementedError(o)
    def path_const(self, p):
        m = re.match(r'^(?:.*::)?(\w+)::(\w+)$', p)
        if m and m.group(1) in self.enumv and m.group(2) in self.enumv[m.group(1)]:
            return Agg(m.group(1), self.enumv[m.group(1)][m.group(2)], [])
        if p in self.fns and self.fns[p].nargs == 0:   # promoted const
            return self.call_fn(self.fns[p], [])
        return ('fnitem', p)
    def rvalue(self, L, rv, f):
        k = rv[0]
        if k == 'use': return self.operand(L, rv[1])
        if k == 'ref':
            p = rv[1]
            if p[0] == 'deref':
                inner = self.load(L, p[1])
                if not isinstance(inner, Ref): return inner   # reborrow of fat ptr
            c, key = self.resolve(L, p)
            return Ref(c, key)
        if k == 'binop': return self.binop(rv[1], self.operand(L, rv[2]), self.operand(L, rv[3]))
        if k == 'unop':
            v = self.operand(L, rv[2])
            if rv[1] == 'Not':
                if isinstance(v, bool): return not v
                if isinstance(v, I): return I(v.t, ~v.v & ((1 << WIDTH[v.t]) - 1) if v.conc() else ~v.v)
                return z3.Not(v)
            if rv[1] == 'Neg': return I(v.t, -v.v)
            raise NotImplementedError(rv)
        if k == 'discr':
            v = self.load(L, rv[1])
            return I('isize', v.variant)
        if k == 'tuple': return Agg('tuple', 0, [self.operand(L, o) for o in rv[1]])
        if k == 'array': return VecV([self.operand(L, o) for o in rv[1]])
        if k == 'struct': return Agg(rv[1], 0, [self.operand(L, o) for _, o in rv[2]])
        if k == 'ctor':
            path = rv[1]; args = [self.operand(L, o) for o in rv[2]]
            base = re.sub(r'::<.*?>(?=::|$)', '', path)
            parts = base.split('::')
            vname = parts[-1]; ename = parts[-2] if len(parts) > 1 else ''
            if ename in self.enumv and vname in self.enumv[ename]: return Agg(ename, self.enumv[ename][vname], args)
            if vname in VARIANTS: return Agg(ename, VARIANTS[vname], args)
            if not rv[2] and path in self.fns: return self.path_const(path)
            return Agg(path, 0, args)
        if k == 'cast':
            v = self.operand(L, rv[1]); t = rv[2]
            if isinstance(v, bool): v = I('u8', int(v))
            if isinstance(v, I) and t in WIDTH:
                if v.conc():
                    x = v.v & ((1 << WIDTH[t]) - 1)
                    if signed(t) and x >> (WIDTH[t] - 1): x -= 1 << WIDTH[t]
                    return I(t, x)
                w0, w1 = WIDTH[v.t], WIDTH[t]
                if w1 > w0: z = z3.SignExt(w1 - w0, v.v) if signed(v.t) else z3.ZeroExt(w1 - w0, v.v)
                elif w1 < w0: z = z3.Extract(w1 - 1, 0, v.v)
                else: z = v.v
                return I(t, z)
            return v
        raise NotImplementedError(rv)
    def binop(self, op, a, b):
        if isinstance(a, bool) or isinstance(b, bool) or z3.is_bool(a) or z3.is_bool(b):
            if op == 'Eq': return (a == b) if is_conc(a) and is_conc(b) else (z3.BoolVal(a) if is_conc(a) else a) == (z3.BoolVal(b) if is_conc(b) else b)
            if op == 'Ne': return (a != b) if is_conc(a) and is_conc(b) else (z3.BoolVal(a) if is_conc(a) else a) != (z3.BoolVal(b) if is_conc(b) else b)
            if op == 'BitAnd': return (a and b) if is_conc(a) and is_conc(b) else z3.And(a, b)
            if op == 'BitOr': return (a or b) if is_conc(a) and is_conc(b) else z3.Or(a, b)
            raise NotImplementedError(op)
        t = a.t; w = WIDTH[t]; sg = signed(t)
        if a.conc() and b.conc():
            x, y = a.v, b.v
            if op in ('Eq','Ne','Lt','Le','Gt','Ge'):
                return {'Eq': x == y, 'Ne': x != y, 'Lt': x < y, 'Le': x <= y, 'Gt': x > y, 'Ge': x >= y}[op]
            if op.endswith('WithOverflow') or op in ('Add','Sub','Mul'):
                r = {'Add': x + y, 'Sub': x - y, 'Mul': x * y}[op.replace('WithOverflow', '')]
                lo, hi = (-(1 << (w - 1)), (1 << (w - 1)) - 1) if sg else (0, (1 << w) - 1)
                ov = not (lo <= r <= hi)
                rr = r & ((1 << w) - 1)
                if sg and rr >> (w - 1): rr -= 1 << w
                if op.endswith('WithOverflow'): return Agg('tuple', 0, [I(t, rr), ov])
                return I(t, rr)
            if op == 'BitAnd': return I(t, x & y)
            if op == 'BitOr': return I(t, x | y)
            raise NotImplementedError(op)
        x, y = a.z(), b.z()
        if op == 'Eq': return x == y
        if op == 'Ne': return x != y
        if op == 'Lt': return (x < y) if sg else z3.ULT(x, y)
        if op == 'Le': return (x <= y) if sg else z3.ULE(x, y)
        if op == 'Gt': return (x > y) if sg else z3.UGT(x, y)
        if op == 'Ge': return (x >= y) if sg else z3.UGE(x, y)
        raise NotImplementedError(op)
    # ---- calls ------------------------------------------------------
    def dispatch(self, fname, argv, L):
        n = strip_generics(fname)
        if fname in self.fns: return self.call_fn(self.fns[fname], argv)
        m = MODELS.get(n)
        if m is None:
            for pat, fn in PATMODELS:
                if re.match(pat, n): m = fn; break
        if m is None: raise NotImplementedError('no model for: ' + n + '   [' + fname + ']')
        return m(self, *argv)
    def call_value(self, fv, args):
        assert fv[0] == 'fnitem'
        return self.dispatch(fv[1], args, None)

def _skip_angle(s, i):
    depth = 0
    while i < len(s):
        c = s[i]
        if c == '<': depth += 1
        elif c == '>' and s[i-1] != '-':
            depth -= 1
            if depth == 0: return i + 1
        i += 1
    raise ValueError(s)
def strip_generics(s):
    out = []; i = 0
    while i < len(s):
        if s.startswith('::<', i) and not s.startswith('::<impl ', i):
            i = _skip_angle(s, i + 2); continue
        if s[i] == '<' and i > 0 and (s[i-1].isalnum() or s[i-1] == '_'):
            i = _skip_angle(s, i); continue
        out.append(s[i]); i += 1
    return ''.join(out)
def some(x): return Agg('Option', 1, [x])
NONE = lambda: Agg('Option', 0, [])
def ok(x): return Agg('Result', 0, [x])
def err(x): return Agg('Result', 1, [x])
def usize(n): return I('usize', n)
def deref(x):
    while isinstance(x, Ref): x = x.get()
    return x

def m_chars_next(E, it):
    it = deref(it)
    s = it.s
    if it.pos >= s.b: return NONE()
    b = s.buf[it.pos]
    if b.conc():
        assert b.v < 0x80, 'non-ascii concrete todo'
        it.pos += 1; return some(I('char', b.v))
    if E.branch(z3.ULT(b.v, 0x80)):
        it.pos += 1; return some(I('char', z3.ZeroExt(24, b.v)))
    raise NotImplementedError('multibyte')

def iter_next(E, it):
    it = deref(it)
    if it.kind == 'chars': return m_chars_next(E, it)
    if it.kind == 'take_while':
        if it.done: return NONE()
        x = iter_next(E, it.inner)
        if x.variant == 0: return x
        cell = [x.fields[0]]
        r = E.call_value(it.pred, [Ref(cell, 0)])
        if E.branch(r): return x
        it.done = True; return NONE()
    if it.kind == 'range':
        if it.cur < it.end:
            v = usize(it.cur); it.cur += 1; return some(v)
        return NONE()
    raise NotImplementedError(it.kind)

def m_collect_string(E, it):
    out = StringV()
    while True:
        x = iter_next(E, it)
        if x.variant == 0: return out
        c = x.fields[0]
        # ascii only in spike
        out.buf.append(I('u8', c.v if c.conc() else z3.Extract(7, 0, c.v)))

def is_digit(E, c):
    c = deref(c)
    if c.conc(): return 48 <= c.v <= 57
    return z3.And(z3.UGE(c.v, 48), z3.ULE(c.v, 57))
def is_alpha(E, c):
    c = deref(c)
    if c.conc(): return chr(c.v).isascii() and chr(c.v).isalpha()
    x = c.v
    return z3.Or(z3.And(z3.UGE(x, 65), z3.ULE(x, 90)), z3.And(z3.UGE(x, 97), z3.ULE(x, 122)))

def m_parse_i64(E, s):
    bs = s.bytes()
    if not bs: return err('Empty')
    i = 0
    neg = False
    # sign handling (single '+'/'-' alone is error)
    b0 = bs[0]
    c0 = (b0.v == 45) if not b0.conc() else b0.v == 45
    if E.branch(c0 if not isinstance(c0, bool) else c0):
        neg = True; i = 1
    else:
        cp = (b0.v == 43)
        if E.branch(cp): i = 1
    if i == len(bs): return err('InvalidDigit')
    acc = z3.BitVecVal(0, 128)
    for b in bs[i:]:
        d = is_digit(E, I('char', z3.ZeroExt(24, b.z())))
        if not E.branch(d): return err('InvalidDigit')
        acc = acc * 10 + z3.ZeroExt(120, b.z() - 48)
    if neg: acc = -acc
    lo = z3.BitVecVal(-(1 << 63), 128); hi = z3.BitVecVal((1 << 63) - 1, 128)
    if len(bs) - i > 18:
        if not E.branch(z3.And(acc >= lo, acc <= hi)): return err('Overflow')
    r = z3.simplify(z3.Extract(63, 0, acc))
    return ok(I('i64', r.as_signed_long() if z3.is_bv_value(r) else r))

def m_starts_with(E, s, pat):
    p = pat.bytes(); b = s.bytes()
    if len(b) < len(p): return False
    conds = []
    for x, y in zip(b, p):
        if x.conc() and y.conc():
            if x.v != y.v: return False
        else: conds.append(x.z() == y.z())
    if not conds: return True
    return z3.And(*conds) if len(conds) > 1 else conds[0]

def m_str_index_range(E, s, r):
    a, b = r.fields[0], r.fields[1]
    assert a.conc() and b.conc()
    if a.v > b.v or b.v > len(s): raise Panic('str index out of range')
    return StrV(s.buf, s.a + a.v, s.a + b.v)

def m_unwrap(E, o):
    if o.variant == (1 if o.name == 'Option' else 0): return o.fields[0]
    raise Panic('unwrap on ' + repr(o))
def m_min(E, a, b):
    if a.conc() and b.conc(): return a if a.v <= b.v else b
    raise NotImplementedError
def m_cmp(E, a, b):
    a = deref(a); b = deref(b)
    assert a.conc() and b.conc()
    return Agg('Ordering', -1 if a.v < b.v else (1 if a.v > b.v else 0), [])
def m_vec_index(E, v, i):
    v = deref(v)
    assert i.conc()
    if i.v >= len(v.items): raise Panic('index oob')
    return Ref(v.items, i.v)

MODELS = {
    'Vec::new': lambda E: VecV(),
    'Vec::push': lambda E, v, x: (deref(v).items.append(x), UNIT)[1],
    'Vec::len': lambda E, v: usize(len(deref(v).items)),
    'core::str::<impl str>::len': lambda E, s: usize(len(s)),
    '<str as Index>::index': m_str_index_range,
    'core::str::<impl str>::chars': lambda E, s: Iter('chars', s=s, pos=s.a),
    '<Chars<_> as Iterator>::next': m_chars_next,
    '<Chars as Iterator>::next': m_chars_next,
    'std::option::Option::unwrap': m_unwrap,
    'std::result::Result::unwrap': m_unwrap,
    'std::result::Result::unwrap_or': lambda E, r, d: r.fields[0] if r.variant == 0 else d,
    'String::is_empty': lambda E, s: len(deref(s).buf) == 0,
    'String::len': lambda E, s: usize(len(deref(s).buf)),
    '<String as Deref>::deref': lambda E, s: StrV(deref(s).buf, 0, len(deref(s).buf)),
    'core::str::<impl str>::parse': m_parse_i64,
    'core::str::<impl str>::starts_with': m_starts_with,
    'char::methods::<impl char>::is_ascii_digit': is_digit,
    'char::methods::<impl char>::is_ascii_alphabetic': is_alpha,
    'char::methods::<impl char>::len_utf8': lambda E, c: usize(1),
    'std::cmp::min': m_min,
    '<usize as Ord>::cmp': m_cmp,
    '<Vec as Index>::index': m_vec_index,
    '<std::ops::Range as IntoIterator>::into_iter': lambda E, r: Iter('range', cur=r.fields[0].v, end=r.fields[1].v),
    '<std::ops::Range as Iterator>::next': lambda E, it: iter_next(E, it),
}
PATMODELS = [
    (r'^<Chars as Iterator>::next$', m_chars_next),
    (r'^<Chars as Iterator>::take_while$', lambda E, it, pred: Iter('take_while', inner=it, pred=pred, done=False)),
    (r'^<TakeWhile as Iterator>::collect$', m_collect_string),
]

def sym_ascii_str(E, name, n):
    bs = []
    for i in range(n):
        b = z3.BitVec(f'{name}{i}', 8)
        E.solver.add(z3.ULT(b, 0x80), b != 0)
        bs.append(I('u8', b))
    return StrV(bs, 0, n)
