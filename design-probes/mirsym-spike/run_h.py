"""Spike 2: run the mounted harness `verif_harness::h_tokenizer` end to end from MIR."""
import sys, time, re, z3
import mirsym
from mirsym import *

ROOT = '/tmp/mirprobe/repo2'
fns = parse_mir(open('/tmp/mirprobe/lib3.mir').read())

# ---- resolver: impl-header lookup --------------------------------------
IMPL_RE = re.compile(r'^(.*?)<impl at ([^:>]+):(\d+):(\d+): (\d+):(\d+)>::(.*)$')
srccache = {}
def src(path):
    if path not in srccache:
        p = path if path.startswith('/') else ROOT + '/' + path
        srccache[path] = open(p).read().split('\n')
    return srccache[path]
index = {}   # (module, Type, Trait|None, method) -> fn name
for name in fns:
    m = IMPL_RE.match(name)
    if not m: continue
    mod, f, l, c, l2, c2, meth = m.groups()
    mod = mod.rstrip(':')
    lines = src(f); line = lines[int(l) - 1]
    hdr = line[int(c) - 1:]
    trait = None; ty = None
    if hdr.startswith('impl'):
        h = re.sub(r'^impl(<[^>]*>)?\s*', '', hdr)
        mm = re.match(r'^(.*?)\s+for\s+([\w:]+)', h)
        if mm: trait = mm.group(1).split('<')[0].split('::')[-1]; ty = mm.group(2).split('::')[-1]
        else: ty = re.match(r'^([\w:]+)', h).group(1).split('::')[-1]
    else:
        trait = line[int(c) - 1:int(c2) - 1]
        for k in range(int(l), min(int(l) + 12, len(lines))):
            mm = re.match(r'^\s*(?:pub(?:\([^)]*\))?\s+)?(?:struct|enum)\s+(\w+)', lines[k])
            if mm: ty = mm.group(1); break
    index[(mod, ty, trait, meth)] = name
print('impl index entries:', len(index))

def resolve(callee):
    n = strip_generics(callee)
    if n in fns: return n
    m = re.match(r'^<(.*) as (.*)>::(\w+)$', n)
    if m:
        ty = m.group(1).lstrip('&').replace('mut ', ''); tr = m.group(2).split('::')[-1]
        parts = ty.split('::')
        return index.get(('::'.join(parts[:-1]), parts[-1], tr, m.group(3)))
    parts = n.split('::')
    if len(parts) >= 3:
        return index.get(('::'.join(parts[:-2]), parts[-2], None, parts[-1]))
    return None

# ---- engine extensions ----------------------------------------------------
E0 = Engine
class Engine2(Engine):
    violations = []
    def dispatch(self, fname, argv, L):
        n0 = strip_generics(fname)
        if n0.startswith('verif_harness::sym::'): return MODELS[n0](self, *argv)
        r = resolve(fname)
        if r: return self.call_fn(self.fns[r], argv)
        return super().dispatch(fname, argv, L)
    def resolve(self, L, p):
        if p[0] == 'index':
            v = self.load(L, p[1])
            if isinstance(v, StrV):
                i = L[p[2]]; assert i.conc()
                return (v.buf, v.a + i.v)
        return super().resolve(L, p)
    def rvalue(self, L, rv, f):
        if rv[0] == 'unop' and rv[1] == 'PtrMetadata':
            v = self.operand(L, rv[2]); return usize(len(v))
        return super().rvalue(L, rv, f)
    def binop(self, op, a, b):
        if op.endswith('WithOverflow') and isinstance(a, I) and not (a.conc() and b.conc()):
            w = WIDTH[a.t]; sg = signed(a.t); x, y = a.z(), b.z()
            base = op[:3]
            if base == 'Add': r = x + y; no = z3.And(z3.BVAddNoOverflow(x, y, sg), z3.BVAddNoUnderflow(x, y)) if sg else z3.BVAddNoOverflow(x, y, False)
            elif base == 'Sub': r = x - y; no = z3.And(z3.BVSubNoOverflow(x, y), z3.BVSubNoUnderflow(x, y, sg)) if sg else z3.BVSubNoUnderflow(x, y, False)
            else: r = x * y; no = z3.And(z3.BVMulNoOverflow(x, y, sg), z3.BVMulNoUnderflow(x, y)) if sg else z3.BVMulNoOverflow(x, y, False)
            return Agg('tuple', 0, [I(a.t, r), z3.Not(no)])
        return super().binop(op, a, b)

def m_any_ascii_str(E, tag, maxlen):
    name = bytes(x.v for x in tag.bytes()).decode()
    n = 0
    while n < maxlen.v:
        # fork on length
        lv = z3.Bool(f'len_{name}_gt_{n}')
        if not E.branch(lv): break
        n += 1
    bs = []
    for i in range(n):
        b = z3.BitVec(f'{name}{i}', 8); E.solver.add(z3.ULT(b, 0x80), b != 0); bs.append(I('u8', b))
    E.inputs[name] = bs
    return StringV(bs)
def m_check(E, id_, cond):
    E.nchecks += 1
    if isinstance(cond, bool):
        if not cond: E.violations.append(('concrete', list(E.taken)))
        return UNIT
    if E.check(z3.Not(cond)):
        E.violations.append((E.solver.model(), list(E.taken)))
    E.solver.add(cond)
    return UNIT
def is_digit_u8(E, c):
    c = deref(c)
    if c.conc(): return 48 <= c.v <= 57
    return z3.And(z3.UGE(c.v, 48), z3.ULE(c.v, 57))
def m_panic(E, *a): raise Panic('explicit panic')
MODELS.update({
    'verif_harness::sym::any_ascii_str': m_any_ascii_str,
    'verif_harness::sym::check': m_check,
    'core::str::<impl str>::as_bytes': lambda E, s: s,
    'core::num::<impl u8>::is_ascii_digit': is_digit_u8,
    'std::vec::Vec::new': lambda E: VecV(),
    'std::vec::Vec::push': lambda E, v, x: (deref(v).items.append(x), UNIT)[1],
    'std::vec::Vec::len': lambda E, v: usize(len(deref(v).items)),
    '<std::string::String as std::ops::Deref>::deref': lambda E, s: StrV(deref(s).buf, 0, len(deref(s).buf)),
    'core::panicking::panic': m_panic,
    '<usize as std::cmp::Ord>::cmp': MODELS['<usize as Ord>::cmp'],
    'std::cmp::min': MODELS['std::cmp::min'],
    'core::str::<impl str>::parse': MODELS['core::str::<impl str>::parse'],
    'core::panicking::assert_failed': m_panic,
    'std::fmt::Arguments::from_str': lambda E, s: s,
    '<str as std::ops::Index>::index': MODELS['<str as Index>::index'],
    '<std::str::Chars as std::iter::Iterator>::next': MODELS['<Chars as Iterator>::next'],
    '<std::vec::Vec as std::ops::Index>::index': MODELS['<Vec as Index>::index'],
    '<std::ops::Range as std::iter::IntoIterator>::into_iter': MODELS['<std::ops::Range as IntoIterator>::into_iter'],
    '<std::ops::Range as std::iter::Iterator>::next': MODELS['<std::ops::Range as Iterator>::next'],
    'std::string::String::is_empty': MODELS['String::is_empty'],
    'std::string::String::len': MODELS['String::len'],
    'std::char::methods::<impl char>::is_ascii_digit': MODELS['char::methods::<impl char>::is_ascii_digit'],
    'std::char::methods::<impl char>::is_ascii_alphabetic': MODELS['char::methods::<impl char>::is_ascii_alphabetic'],
    'std::char::methods::<impl char>::len_utf8': MODELS['char::methods::<impl char>::len_utf8'],
})
PATMODELS.extend([
    (r'^<std::str::Chars as std::iter::Iterator>::take_while$', lambda E, it, pred: Iter('take_while', inner=it, pred=pred, done=False)),
    (r'^<std::iter::TakeWhile as std::iter::Iterator>::collect$', mirsym.m_collect_string),
])

enumv = {'DeweyOp': {'LE':0,'LT':1,'GE':2,'GT':3}}
E = Engine2(fns, enumv); E.nchecks = 0; E.inputs = {}
t0 = time.time()
def entry(E):
    E.inputs = {}
    return E.call_fn(fns['verif_harness::h_tokenizer'], [])
res = E.explore(entry)
print('paths', len(res), 'checks', E.nchecks, 'violations', len(E.violations), 'time %.1fs' % (time.time() - t0), 'queries', E.nqueries)
pan = [r for r in res if r[0][0] == 'panic']
print('panic paths', len(pan), pan[:2] and pan[0][0])
