import sys, time, z3
from mirsym import *
fns = parse_mir(open('/tmp/mirprobe/lib.mir').read())
enumv = {'DeweyOp': {'LE':0,'LT':1,'GE':2,'GT':3}}
E = Engine(fns, enumv)
DV = [n for n in fns if n.startswith('dewey::<impl at src/dewey.rs:74')][0]

def ref_tok(s):
    v=[]; nb=0; i=0
    while i < len(s):
        sl = s[i:]
        m = re.match(r'[0-9]+', sl)
        if m: v.append(int(m.group(0))); i += len(m.group(0)); continue
        if sl[0] in '._': v.append(0); i+=1; continue
        if sl.startswith('nb'):
            m = re.match(r'[0-9]*', sl[2:]); nb = int(m.group(0)) if m.group(0) else 0; i += 2+len(m.group(0)); continue
        for mod,val in (('alpha',-3),('beta',-2),('rc',-1),('pl',0)):
            if sl.startswith(mod): v.append(val); i+=len(mod); break
        else:
            if sl[0].isascii() and sl[0].isalpha(): v += [0, ord(sl[0])]
            i += 1
    return v, nb

n = int(sys.argv[1])
t0 = time.time()
def entry(E):
    s = sym_ascii_str(E, 's', n)
    E.input = s
    return E.call_fn(fns[DV], [s])
res = E.explore(entry)
t1 = time.time()
print('paths', len(res), 'time %.1fs' % (t1-t0), 'queries', E.nqueries, 'qtime %.1f' % E.qtime)
bad = 0; panics = 0
for (r, pc, taken, model) in res:
    conc = ''.join(chr(model.eval(z3.BitVec(f's{i}', 8), model_completion=True).as_long()) for i in range(n))
    if r[0] == 'panic': panics += 1; continue
    dv = r[1]
    vec = [ (x.v if x.conc() else model.eval(x.v, model_completion=True).as_signed_long()) for x in dv.fields[0].items]
    nb = dv.fields[1]; nb = nb.v if nb.conc() else model.eval(nb.v, model_completion=True).as_signed_long()
    if (vec, nb) != ref_tok(conc):
        bad += 1
        if bad < 5: print('MISMATCH', repr(conc), vec, nb, ref_tok(conc))
print('panics', panics, 'mismatch', bad)
import random
for (r, pc, taken, model) in random.sample(res, 3): print(r)
