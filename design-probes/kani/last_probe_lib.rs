#![allow(dead_code)]
pub mod dewey;
#[cfg(kani)]
mod h {
    use crate::dewey::*;
    fn dv<const N: usize>() -> DeweyVersion {
        let a: [i64; N] = kani::any();
        DeweyVersion::from_parts(a.to_vec(), kani::any())
    }
    fn laws(a: &DeweyVersion, b: &DeweyVersion) {
        let gt = dewey_cmp(a, &DeweyOp::GT, b);
        let ge = dewey_cmp(a, &DeweyOp::GE, b);
        let lt = dewey_cmp(a, &DeweyOp::LT, b);
        let le = dewey_cmp(a, &DeweyOp::LE, b);
        assert!(gt != le);
        assert!(lt != ge);
        assert!(!(gt && lt));
        assert!(gt == dewey_cmp(b, &DeweyOp::LT, a));
        assert!(ge == dewey_cmp(b, &DeweyOp::LE, a));
    }
    #[kani::proof]
    #[kani::unwind(5)]
    fn k_laws_2_3() { let a = dv::<2>(); let b = dv::<3>(); laws(&a, &b); std::mem::forget(a); std::mem::forget(b); }
    #[kani::proof]
    #[kani::unwind(5)]
    fn k_laws_3_2() { let a = dv::<3>(); let b = dv::<2>(); laws(&a, &b); std::mem::forget(a); std::mem::forget(b); }
    #[kani::proof]
    #[kani::unwind(5)]
    fn k_trans_2_3_1() {
        let a = dv::<2>(); let b = dv::<3>(); let c = dv::<1>();
        if dewey_cmp(&a, &DeweyOp::LE, &b) && dewey_cmp(&b, &DeweyOp::LE, &c) { assert!(dewey_cmp(&a, &DeweyOp::LE, &c)); }
        std::mem::forget(a); std::mem::forget(b); std::mem::forget(c);
    }
}
