//! C02 A dewey pattern matches exactly the same-base packages inside its range.
use super::{c01, spec, sym};
use crate::dewey::{dewey_cmp, Dewey, DeweyVersion};

const PAT_ALPHA: &str = "set:a-é01.<>=";
const NAME_ALPHA: &str = "set:a-é01.";

/// accept / reject of comparison patterns, and never a panic
pub fn h_compile() {
    let n = sym::bound(6, 7);
    let p = sym::any_str("p", PAT_ALPHA, 0, n);
    let d = Dewey::new(&p);
    let want = spec::parse_dewey(p.as_bytes());
    sym::observe_bool("accepted", d.is_ok());
    sym::cover("accepted", d.is_ok());
    sym::cover("rejected", d.is_err());
    sym::check("C02/accept-iff-wellformed", d.is_ok() == want.is_some());
    let mut has_op = false;
    for b in p.as_bytes() {
        has_op = has_op | (*b == b'<') | (*b == b'>');
    }
    if has_op {
        let pp = crate::Pattern::new(&p);
        sym::check("C02/pattern-agrees", pp.is_ok() == d.is_ok());
    }
}

/// matching = same base (text before the last '-') and every bound holds
pub fn h_match() {
    let n = sym::bound(4, 5);
    let p = sym::any_str("p", PAT_ALPHA, 1, n);
    let ops = match spec::parse_dewey(p.as_bytes()) {
        Some(o) => o,
        None => return,
    };
    let d = match Dewey::new(&p) {
        Ok(d) => d,
        Err(_) => {
            sym::check("C02/compiles", false);
            return;
        }
    };
    let m = sym::bound(3, 3);
    let name = sym::any_str("name", NAME_ALPHA, 0, m);
    let got = d.matches(&name);
    sym::observe_bool("matches", got);
    let pb = p.as_bytes();
    let nb = name.as_bytes();
    let base = &pb[0..ops[0].0];
    let want = match spec::last_dash(nb) {
        None => false,
        Some(k) => {
            let ver = DeweyVersion::new(&name[k + 1..]);
            let mut all = spec::bytes_eq(&nb[0..k], base);
            let mut j = 0;
            while j < ops.len() {
                let end = if j + 1 < ops.len() { ops[j + 1].0 } else { pb.len() };
                let bound = DeweyVersion::new(&p[ops[j].1..end]);
                all = all & dewey_cmp(&ver, &c01::op_of(ops[j].2), &bound);
                j += 1;
            }
            all
        }
    };
    sym::cover("match", got);
    sym::cover("two-bounds", ops.len() == 2);
    sym::check("C02/matches-iff", got == want);
    let pp = crate::Pattern::new(&p).unwrap();
    sym::check("C02/pattern-matcher-agrees", pp.matches(&name) == got);
}

/// the base is compared byte for byte: blanks, case and non-ASCII characters are all significant
pub fn h_base_bytes() {
    const A: &str = "set:aA \u{a0}é-.";
    let b1 = sym::any_str("b1", A, 1, sym::bound(2, 3));
    let b2 = sym::any_str("b2", A, 0, sym::bound(2, 3));
    let op = sym::choose("op", 4);
    let v = sym::choose("v", 3);
    let p = format!("{}{}1", b1, c01::op_str(op));
    let name = format!("{}-{}", b2, ["1", "0", "2"][v]);
    let d = match Dewey::new(&p) {
        Ok(d) => d,
        Err(_) => {
            sym::check("C02/base-compiles", false);
            return;
        }
    };
    let holds = match op {
        0 => v <= 1,
        1 => v == 1,
        2 => v != 1,
        _ => v == 2,
    };
    let same = spec::bytes_eq(b1.as_bytes(), b2.as_bytes());
    let got = d.matches(&name);
    sym::cover("same-base", same);
    sym::cover("matched", got);
    sym::check("C02/base-byte-for-byte", got == (same & holds));
    let pp = crate::Pattern::new(&p).unwrap();
    sym::check("C02/base-pattern-agrees", pp.matches(&name) == got);
}
