//! C04 Brace alternation matches exactly the union of its csh-style expansions.
use super::{spec, sym};
use crate::Pattern;

fn has_brace(p: &[u8]) -> bool {
    let mut h = false;
    for b in p {
        h = h | (*b == b'{') | (*b == b'}');
    }
    h
}

fn check_pattern(p: &str, name: &str) {
    let pb = p.as_bytes();
    if !has_brace(pb) {
        return;
    }
    let c = Pattern::new(p);
    let bal = spec::balanced(pb);
    sym::observe_bool("compiles", c.is_ok());
    sym::cover("compiles", c.is_ok());
    sym::cover("rejected", c.is_err());
    sym::check("C04/compiles-iff-balanced", c.is_ok() == bal);
    let c = match c {
        Ok(c) => c,
        Err(_) => return,
    };
    if !bal {
        return;
    }
    let got = c.matches(name);
    sym::observe_bool("matches", got);
    let mut want = false;
    let exps = spec::expand(pb);
    sym::cover("several-expansions", exps.len() > 2);
    for e in exps {
        let es = match std::str::from_utf8(&e) {
            Ok(s) => s,
            Err(_) => continue,
        };
        if let Ok(q) = Pattern::new(es) {
            if q.matches(name) {
                want = true;
            }
        }
    }
    sym::cover("matched", got);
    sym::check("C04/matches-iff-some-expansion", got == want);
}

pub fn h_any() {
    let n = sym::bound(5, 6);
    let p = sym::any_str("p", "set:{},ab-1>*", 1, n);
    let m = sym::bound(3, 4);
    let name = sym::any_str("name", "set:ab-1", 0, m);
    check_pattern(&p, &name);
}

/// nested / multiple groups with symbolic letters
pub fn h_skeletons() {
    let l = |t: &str| sym::any_str(t, "set:abc", 0, 1);
    let (x, y, z, w, s) = (l("x"), l("y"), l("z"), l("w"), sym::any_str("s", "set:-1a", 0, 2));
    let p = match sym::choose("skel", 8) {
        // three levels: a comma / closing brace of the middle group right after the innermost group
        6 => format!("{{{},{}{{{}{{a,b}},c}}{}}}", x, y, z, s),
        7 => format!("{{{}{{{}{{{}}}a}}b,c}}{}", x, y, z, s),
        0 => format!("{{{}{{{},{}}},{}}}{}", x, y, z, w, s),
        1 => format!("{}{{,{}}}{}", x, y, s),
        2 => format!("{{{},{}}}{{{},{}}}{}", x, y, z, w, s),
        3 => format!("{{{{{},{}}},{}}}{}", x, y, z, s),
        4 => format!("{{{},{{{},{}}}{}}}{}", x, y, z, w, s),
        _ => format!("{}{{{},{}{{{},}}}}{}", x, y, z, w, s),
    };
    let name = sym::any_str("name", "set:abc-1", 0, sym::bound(4, 5));
    check_pattern(&p, &name);
}

/// brace structure alone: strings over '{', '}', ',' and one letter, longer than h_any can afford
pub fn h_nesting() {
    let p = sym::any_str("p", "set:{}a", 1, sym::bound(7, 9));
    let name = ["a", "aa", ""][sym::choose("name", 3)];
    check_pattern(&p, name);
}
