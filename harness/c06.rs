//! C06 best_match returns the matching candidate with the highest version.
use super::{spec, sym};
use crate::dewey::{dewey_cmp, DeweyOp, DeweyVersion};
use crate::Pattern;

fn menu() -> Pattern {
    let p = match sym::choose("pat", 7) {
        0 => "pk>=1<3",
        6 => "pk<3",
        1 => "pk-[0-9]*",
        2 => "{pk,qk}-[0-9a]*",
        3 => "pk-1",
        4 => "pk-?-[0-9]*",
        _ => "?k-*",
    };
    Pattern::new(p).unwrap()
}

/// BASE-VERSION with base pk / qk, optionally extended by a further `-a` / `-b` component (so that
/// the first and the last '-' differ), and a symbolic version
fn any_name(tag: &str, vlen: usize, with_mid: bool) -> String {
    let base = if sym::choose(tag, 2) == 0 { "pk" } else { "qk" };
    let shape = if with_mid { sym::choose(tag, 3) } else { 0 };
    if shape == 2 {
        // no '-' at all: never matches anything that needs a version
        return base.to_string();
    }
    let mid = if shape == 0 { String::new() } else { format!("-{}", sym::any_str(tag, "set:ab", 1, 1)) };
    format!("{}{}-{}", base, mid, sym::any_str(tag, "set:0129.anb_", 0, vlen))
}

fn version_of(n: &str) -> DeweyVersion {
    match spec::last_dash(n.as_bytes()) {
        Some(k) => DeweyVersion::new(&n[k + 1..]),
        None => DeweyVersion::new(""),
    }
}

/// strictly better under (version desc, then byte-wise smaller name)
fn better(a: &str, b: &str) -> bool {
    let (va, vb) = (version_of(a), version_of(b));
    if dewey_cmp(&va, &DeweyOp::GT, &vb) {
        return true;
    }
    if dewey_cmp(&va, &DeweyOp::LT, &vb) {
        return false;
    }
    a.as_bytes() < b.as_bytes()
}

fn same(a: Option<&str>, b: Option<&str>) -> bool {
    match (a, b) {
        (None, None) => true,
        (Some(x), Some(y)) => spec::bytes_eq(x.as_bytes(), y.as_bytes()),
        _ => false,
    }
}

pub fn h_pair() {
    let p = menu();
    // thorough: the first candidate's version grows (every check is symmetric in the two candidates)
    let a = any_name("a", sym::bound(1, 2), true);
    let b = any_name("b", 1, true);
    let (ma, mb) = (p.matches(&a), p.matches(&b));
    let r = p.best_match(&a, &b);
    sym::observe_bool("ma", ma);
    sym::observe_bool("mb", mb);
    match r {
        Some(x) => sym::observe_str("best", x),
        None => sym::observe_str("best", ""),
    }
    sym::cover("both-match", ma & mb);
    sym::check("C06/none-iff-neither", r.is_none() == (!ma & !mb));
    if let Some(x) = r {
        let is_a = spec::bytes_eq(x.as_bytes(), a.as_bytes());
        let is_b = spec::bytes_eq(x.as_bytes(), b.as_bytes());
        sym::check("C06/one-of-inputs", is_a | is_b);
        sym::check("C06/result-matches", p.matches(x));
        if ma & mb {
            // no matching candidate strictly better than the result
            sym::check("C06/maximal", !better(&a, x) & !better(&b, x));
        } else if ma {
            sym::check("C06/only-a", is_a);
        } else {
            sym::check("C06/only-b", is_b);
        }
    }
    sym::check("C06/symmetric", same(r, p.best_match(&b, &a)));
}

fn bm<'a>(p: &Pattern, x: Option<&'a str>, y: Option<&'a str>) -> Option<&'a str> {
    match (x, y) {
        (Some(x), Some(y)) => p.best_match(x, y),
        (Some(x), None) => {
            if p.matches(x) {
                Some(x)
            } else {
                None
            }
        }
        (None, Some(y)) => {
            if p.matches(y) {
                Some(y)
            } else {
                None
            }
        }
        (None, None) => None,
    }
}

/// every order / association of pairwise reduction over three candidates gives one winner
pub fn h_triple() {
    let p = menu();
    let a = any_name("a", sym::bound(1, 2), false);
    let b = any_name("b", 1, false);
    let c = any_name("c", 1, false);
    let (sa, sb, sc) = (Some(a.as_str()), Some(b.as_str()), Some(c.as_str()));
    let w = bm(&p, bm(&p, sa, sb), sc);
    sym::cover("winner", w.is_some());
    let mut ok = true;
    ok = ok & same(w, bm(&p, sa, bm(&p, sb, sc)));
    ok = ok & same(w, bm(&p, bm(&p, sa, sc), sb));
    ok = ok & same(w, bm(&p, bm(&p, sb, sa), sc));
    ok = ok & same(w, bm(&p, bm(&p, sb, sc), sa));
    ok = ok & same(w, bm(&p, bm(&p, sc, sa), sb));
    ok = ok & same(w, bm(&p, bm(&p, sc, sb), sa));
    ok = ok & same(w, bm(&p, sc, bm(&p, sb, sa)));
    ok = ok & same(w, bm(&p, sb, bm(&p, sa, sc)));
    sym::check("C06/reduction-order-independent", ok);
}
