//! Mounted as `crate::plist::verif_in`.
use super::*;

pub fn entries(p: &Plist) -> &Vec<PlistEntry> {
    &p.entries
}
