//! C10 distinfo files round-trip byte-exactly, including non-UTF-8 names.
//! C11 Each recognised distinfo line lands on its file; other lines change nothing.
use super::{spec, sym};
use crate::digest::Digest;
use crate::distinfo::{Checksum, Distinfo, Entry, EntryType};
use std::ffi::OsString;
use std::os::unix::ffi::{OsStrExt, OsStringExt};
use std::path::PathBuf;

pub const ALGS: [&str; 6] = ["BLAKE2s", "MD5", "RMD160", "SHA1", "SHA256", "SHA512"];
/// any byte that is not ASCII whitespace, '/' (component-wise PathBuf equality would merge
/// `a//b` and `a/b`; outside the claim) or NUL
pub const NAMEBYTES: &str = "hex:01-08,0e-1f,21-2e,30-ff";

pub fn alg_of(i: usize) -> Digest {
    match i {
        0 => Digest::BLAKE2s,
        1 => Digest::MD5,
        2 => Digest::RMD160,
        3 => Digest::SHA1,
        4 => Digest::SHA256,
        _ => Digest::SHA512,
    }
}

/// From the statement: patch-* and emul-*-patch-*, except patch-local-*, *.orig, *.rej, *~ and
/// names containing ".tar." (decided on the last path component)
pub fn spec_is_patch(name: &[u8]) -> bool {
    let mut st = 0;
    let mut i = 0;
    while i < name.len() {
        if name[i] == b'/' {
            st = i + 1;
        }
        i += 1;
    }
    let n = &name[st..];
    let starts = |p: &[u8]| n.len() >= p.len() && &n[0..p.len()] == p;
    let ends = |p: &[u8]| n.len() >= p.len() && &n[n.len() - p.len()..] == p;
    let contains_from = |from: usize, p: &[u8]| {
        let mut k = from;
        let mut found = false;
        while k + p.len() <= n.len() {
            if &n[k..k + p.len()] == p {
                found = true;
            }
            k += 1;
        }
        found
    };
    if starts(b"patch-local-") || ends(b".orig") || ends(b".rej") || ends(b"~") || contains_from(0, b".tar.") {
        return false;
    }
    starts(b"patch-") || (starts(b"emul-") && contains_from(5, b"-patch-"))
}

/// `sub`: 0 = no DIST_SUBDIR; 1 = `sub/`; 2, 3 = redundant spellings of the same directory (`sub//`, `./sub/`),
/// which a byte-exact round trip must keep as written (seed z10 normalised them through `Path::components`)
fn any_name(tag: &str, patch: bool, sub: usize) -> Vec<u8> {
    let mut n: Vec<u8> = Vec::new();
    match sub {
        0 => {}
        1 => n.extend_from_slice(b"sub/"),
        2 => n.extend_from_slice(b"sub//"),
        _ => n.extend_from_slice(b"./sub/"),
    }
    if patch {
        n.extend_from_slice(b"patch-");
    } else {
        n.push(b'd');
    }
    n.extend_from_slice(&sym::any_bytes(tag, NAMEBYTES, 0, 1));
    n
}

/// boundary values or up to three symbolic digits (no leading zero); returned with its canonical
/// decimal spelling so that no harness code has to divide a symbolic integer
fn any_size(tag: &str) -> (u64, Vec<u8>) {
    match sym::choose(tag, 4) {
        0 => (0, b"0".to_vec()),
        1 => (u64::MAX, b"18446744073709551615".to_vec()),
        2 => (10, b"10".to_vec()),
        _ => {
            let mut d = sym::any_bytes(tag, "hex:31-39", 1, 1);
            d.extend_from_slice(&sym::any_bytes(tag, "hex:30-39", 0, 1));
            let mut n: u64 = 0;
            for x in d.iter() {
                n = n * 10 + (*x - b'0') as u64;
            }
            (n, d)
        }
    }
}

struct FileSpec {
    name: Vec<u8>,
    sums: Vec<(usize, Vec<u8>)>,
    size: Option<(u64, Vec<u8>)>,
    patch: bool,
}

fn canonical_text(rcs: &[u8], files: &[FileSpec]) -> Vec<u8> {
    let mut t: Vec<u8> = Vec::new();
    t.extend_from_slice(rcs);
    t.extend_from_slice(b"\n\n");
    for pass in 0..2 {
        for f in files.iter() {
            if f.patch != (pass == 1) {
                continue;
            }
            for (a, h) in f.sums.iter() {
                t.extend_from_slice(ALGS[*a].as_bytes());
                t.extend_from_slice(b" (");
                t.extend_from_slice(&f.name);
                t.extend_from_slice(b") = ");
                t.extend_from_slice(h);
                t.push(b'\n');
            }
            if let Some((_, digits)) = &f.size {
                t.extend_from_slice(b"Size (");
                t.extend_from_slice(&f.name);
                t.extend_from_slice(b") = ");
                t.extend_from_slice(digits);
                t.extend_from_slice(b" bytes\n");
            }
        }
    }
    t
}

/// The secondary dimensions are derived from the algorithm choice instead of being chosen independently
/// (keeps the product of choices small).
fn dim(tag: &str, n: usize, derived: usize) -> usize {
    // (making them independent in the thorough tier multiplied the path count beyond 15 minutes on 16 cores;
    // the thorough tier grows the number of distfiles, the RCS Id and the token / line counts instead)
    let _ = tag;
    derived % n
}

fn gen_files() -> Vec<FileSpec> {
    let mut files: Vec<FileSpec> = Vec::new();
    let nd = 1 + sym::choose("ndist", sym::bound(1, 1));
    let a0 = sym::choose("alg", 6);
    let mut i = 0;
    while i < nd {
        // the first distfile varies in every dimension, further ones only in their name
        let first = i == 0;
        let mut name = any_name("dn", false, if first && dim("sub", 2, a0 / 3) == 1 { a0 - 2 } else { 0 });
        name.push(b'0' + i as u8); // distinct names
        let a = if first { a0 } else { 3 };
        let mut sums = vec![(a, if first { sym::any_bytes("h", "hex:30-39,61-66", 1, 1) } else { b"00".to_vec() })];
        if first && dim("two-sums", 2, a0) == 1 {
            sums.push(((a + 1) % 6, b"ab".to_vec()));
        }
        let size = if first { any_size("size") } else { (10, b"10".to_vec()) };
        files.push(FileSpec { name, sums, size: Some(size), patch: false });
        i += 1;
    }
    // zero, one or two patches; two patches get distinct one-byte suffixes in either order
    let np = sym::choose("patch", 3);
    if np >= 1 {
        let name = any_name("pn", true, 0);
        files.push(FileSpec { name, sums: vec![(dim("palg", 2, a0 / 2) * 5, b"0f".to_vec())], size: None, patch: true });
    }
    if np == 2 {
        let mut name = b"patch-".to_vec();
        name.extend_from_slice(&sym::any_bytes("pn2", "hex:61-63", 1, 1));
        sym::assume(!spec::bytes_eq(&name, &files[files.len() - 1].name));
        files.push(FileSpec { name, sums: vec![(3, b"1e".to_vec())], size: None, patch: true });
    }
    files
}

/// canonical text -> parse -> write is byte-identical
pub fn h_roundtrip_text() {
    let mut rcs = b"$NetBSD: ".to_vec();
    rcs.extend_from_slice(&sym::any_bytes("rcs", "bytes-nonl", 0, sym::bound(1, 2)));
    let files = gen_files();
    let text = canonical_text(&rcs, &files);
    let d = Distinfo::from_bytes(&text);
    let out = d.as_bytes();
    sym::observe_bytes("out", &out);
    sym::cover("has-patch", d.patchfiles().len() > 0);
    sym::cover("two-distfiles", d.distfiles().len() > 1);
    sym::check("C10/parse-write-identical", spec::bytes_eq(&out, &text));
}

/// Distinfo assembled through the API -> write -> parse gives the same rcsid, files, order, sums, sizes
pub fn h_roundtrip_api() {
    let files = gen_files();
    let mut d = Distinfo::new();
    let rcs = OsString::from_vec({
        let mut r = b"$NetBSD: ".to_vec();
        r.extend_from_slice(&sym::any_bytes("rcs", "bytes-nonl", 0, 1));
        r
    });
    d.set_rcsid(&rcs);
    let fpk = sym::choose("filepath", 3);
    for f in files.iter() {
        let mut sums: Vec<Checksum> = Vec::new();
        for (a, h) in f.sums.iter() {
            sums.push(Checksum::new(alg_of(*a), String::from_utf8(h.clone()).unwrap()));
        }
        let name = PathBuf::from(OsString::from_vec(f.name.clone()));
        // the on-disk path is documented as not used in the distinfo file: it may be the name itself, absent,
        // or a path whose basename would classify differently from the distinfo name
        let path = match fpk {
            0 => name.clone(),
            1 => PathBuf::new(),
            _ => PathBuf::from(if f.patch { "/w/distfiles/d.tar" } else { "/w/patches/patch-zz" }),
        };
        let e = Entry::new(&name, &path, sums, f.size.as_ref().map(|x| x.0));
        sym::check("C10/insert-new", d.insert(e));
    }
    let back = Distinfo::from_bytes(&d.as_bytes());
    sym::check("C10/api-rcsid", back.rcsid() == Some(&rcs));
    let same_list = |a: Vec<&Entry>, b: Vec<&Entry>| -> bool {
        let mut ok = a.len() == b.len();
        if ok {
            for k in 0..a.len() {
                ok = ok & (a[k].filename.as_os_str().as_bytes() == b[k].filename.as_os_str().as_bytes());
                ok = ok & (a[k].size == b[k].size) & (a[k].checksums == b[k].checksums);
            }
        }
        ok
    };
    sym::cover("api-patch", d.patchfiles().len() > 0);
    sym::check("C10/api-distfiles", same_list(d.distfiles(), back.distfiles()));
    sym::check("C10/api-patchfiles", same_list(d.patchfiles(), back.patchfiles()));
}

// ------------------------------------------------------------------------------------------ C11
/// classification by name
pub fn h_classify() {
    let toks: [&[u8]; 10] = [b"patch-", b"patch-local-", b"emul-", b"-patch-", b".orig", b".rej", b"~", b".tar.", b"x/", b"a"];
    let mut name: Vec<u8> = Vec::new();
    let n = sym::choose("ntok", sym::bound(3, 4) + 1);
    let mut i = 0;
    while i < n {
        let k = sym::choose("tok", toks.len() + 1);
        if k < toks.len() {
            name.extend_from_slice(toks[k]);
        } else {
            name.push(sym::any_u8("byte"));
        }
        i += 1;
    }
    let mut valid = true;
    for b in name.iter() {
        valid = valid & (*b != 0);
    }
    sym::assume(valid);
    let p = PathBuf::from(OsString::from_vec(name.clone()));
    // names ending in '/' or made of '.'/'..' components have no file name; not asserted
    if p.file_name().is_none() || name.ends_with(b"/") || name.ends_with(b"/.") {
        return;
    }
    let got = EntryType::from(&p) == EntryType::Patchfile;
    sym::observe_bool("patch", got);
    sym::cover("patch", got);
    sym::cover("dist", !got);
    sym::check("C11/classification", got == spec_is_patch(&name));
}

/// interleaved recognised and ignored lines
pub fn h_lines() {
    // one name with arbitrary bytes, a fixed patch name and a fixed DIST_SUBDIR name
    let names: [Vec<u8>; 3] = [any_name("n0", false, 0), b"patch-ab".to_vec(), b"sub/d2".to_vec()];
    // expected, per name: checksums in line order and last size
    let mut order: Vec<usize> = Vec::new();
    let mut sums: Vec<Vec<(usize, Vec<u8>)>> = vec![Vec::new(), Vec::new(), Vec::new()];
    let mut sizes: Vec<Option<u64>> = vec![None, None, None];
    let mut text: Vec<u8> = Vec::new();
    let nl = 1 + sym::choose("nlines", 2);
    // blank style between fields, once per text: single blank / doubled blanks with leading
    // blanks / tab+blank
    let style = sym::choose("ws", 3);
    let ws = |t: &mut Vec<u8>| match style {
        0 => t.push(b' '),
        1 => t.extend_from_slice(b"  "),
        _ => t.extend_from_slice(b"\t "),
    };
    let mut i = 0;
    while i < nl {
        let kind = sym::choose("kind", 10);
        if kind < 5 {
            let (w, is_size) = match kind {
                0 => (0, false),
                1 => (1, false),
                2 => (2, false),
                3 => (0, true),
                _ => (2, true),
            };
            if style == 1 {
                text.extend_from_slice(b"  ");
            }
            let a = (i * 5 + w) % 6;
            if is_size {
                text.extend_from_slice(b"Size");
            } else if i % 2 == 1 {
                text.extend_from_slice(ALGS[a].to_lowercase().as_bytes());
            } else {
                text.extend_from_slice(ALGS[a].as_bytes());
            }
            ws(&mut text);
            text.push(b'(');
            text.extend_from_slice(&names[w]);
            text.push(b')');
            ws(&mut text);
            text.push(b'=');
            ws(&mut text);
            if !order.contains(&w) {
                order.push(w);
            }
            if is_size {
                let mut digits = sym::any_bytes("sz", "hex:31-39", 1, 1);
                digits.extend_from_slice(&sym::any_bytes("sz", "hex:30-39", 0, 1));
                let mut n: u64 = 0;
                for x in digits.iter() {
                    n = n * 10 + (*x - b'0') as u64;
                }
                text.extend_from_slice(&digits);
                text.extend_from_slice(b" bytes");
                sizes[w] = Some(n);
            } else {
                let h = vec![b'a' + i as u8];
                text.extend_from_slice(&h);
                sums[w].push((a, h));
            }
        } else {
            match kind {
                5 => text.extend_from_slice(b"# SHA1 (d) = 00"),
                6 => {}
                // unknown algorithms, including near-misses of `Size`
                7 => text.extend_from_slice([b"SHA3 (d) = 00" as &[u8], b"SIZE (d) = 5 bytes", b"size (n0) = 5 bytes"][i % 3]),
                8 => {
                    text.extend_from_slice(b"Size (d9) = ");
                    text.extend_from_slice(&sym::any_bytes("badsize", "set:-x9", 0, 1));
                    text.extend_from_slice(b"x bytes");
                }
                _ => {
                    text.extend_from_slice(b"g");
                    text.extend_from_slice(&sym::any_bytes("garbage", "bytes-nonl", 0, sym::bound(1, 2)));
                }
            }
        }
        text.push(b'\n');
        i += 1;
    }
    let d = Distinfo::from_bytes(&text);
    let df = d.distfiles();
    let pf = d.patchfiles();
    sym::observe_usize("ndist", df.len());
    sym::observe_usize("npatch", pf.len());
    // expected lists in first-appearance order
    let mut want_d: Vec<usize> = Vec::new();
    let mut want_p: Vec<usize> = Vec::new();
    for w in order.iter() {
        if spec_is_patch(&names[*w]) {
            want_p.push(*w);
        } else {
            want_d.push(*w);
        }
    }
    let same = |got: &Vec<&Entry>, want: &Vec<usize>| -> bool {
        let mut ok = got.len() == want.len();
        if ok {
            for k in 0..want.len() {
                let w = want[k];
                ok = ok & (got[k].filename.as_os_str().as_bytes() == &names[w][..]);
                ok = ok & (got[k].size == sizes[w]);
                ok = ok & (got[k].checksums.len() == sums[w].len());
                if got[k].checksums.len() == sums[w].len() {
                    for j in 0..sums[w].len() {
                        ok = ok & (got[k].checksums[j].digest == alg_of(sums[w][j].0));
                        ok = ok & (got[k].checksums[j].hash.as_bytes() == &sums[w][j].1[..]);
                    }
                }
            }
        }
        ok
    };
    sym::cover("some-dist", !want_d.is_empty());
    sym::cover("some-patch", !want_p.is_empty());
    sym::check("C11/distfiles", same(&df, &want_d));
    sym::check("C11/patchfiles", same(&pf, &want_p));
    sym::check("C11/no-rcsid-invented", d.rcsid().is_none());
}

/// Lines of several files interleaved in every order (canonical spacing): each line lands on its
/// own file, first-appearance order, checksums in line order, last size wins.
pub fn h_interleave() {
    let names: [&[u8]; 4] = [b"d0", b"patch-ab", b"sub/d2", b"d3.tar.gz"];
    let mut order: Vec<usize> = Vec::new();
    let mut sums: Vec<Vec<(usize, Vec<u8>)>> = vec![Vec::new(); 4];
    let mut sizes: Vec<Option<u64>> = vec![None; 4];
    let mut text: Vec<u8> = b"$NetBSD$\n\n".to_vec();
    let nl = sym::choose("nlines", sym::bound(4, 5) + 1);
    let mut i = 0;
    while i < nl {
        let w = sym::choose("file", 4);
        let is_size = sym::choose("size?", 2) == 1;
        if !order.contains(&w) {
            order.push(w);
        }
        if is_size {
            text.extend_from_slice(b"Size (");
            text.extend_from_slice(names[w]);
            text.extend_from_slice(b") = ");
            text.push(b'1' + i as u8);
            text.extend_from_slice(b" bytes\n");
            sizes[w] = Some(1 + i as u64);
        } else {
            // two consecutive lines use the same algorithm: a file may carry the same algorithm twice (both recorded)
            let a = (i / 2 + w) % 6;
            text.extend_from_slice(ALGS[a].as_bytes());
            text.extend_from_slice(b" (");
            text.extend_from_slice(names[w]);
            text.extend_from_slice(b") = ");
            let h = vec![b'a' + i as u8, b'0' + w as u8];
            text.extend_from_slice(&h);
            text.push(b'\n');
            sums[w].push((a, h));
        }
        i += 1;
    }
    let d = Distinfo::from_bytes(&text);
    let df = d.distfiles();
    let pf = d.patchfiles();
    let mut want_d: Vec<usize> = Vec::new();
    let mut want_p: Vec<usize> = Vec::new();
    for w in order.iter() {
        if spec_is_patch(names[*w]) {
            want_p.push(*w);
        } else {
            want_d.push(*w);
        }
    }
    let same = |got: &Vec<&Entry>, want: &Vec<usize>| -> bool {
        let mut ok = got.len() == want.len();
        if ok {
            for k in 0..want.len() {
                let w = want[k];
                ok = ok & (got[k].filename.as_os_str().as_bytes() == names[w]);
                ok = ok & (got[k].size == sizes[w]);
                ok = ok & (got[k].checksums.len() == sums[w].len());
                if got[k].checksums.len() == sums[w].len() {
                    for j in 0..sums[w].len() {
                        ok = ok & (got[k].checksums[j].digest == alg_of(sums[w][j].0));
                        ok = ok & (got[k].checksums[j].hash.as_bytes() == &sums[w][j].1[..]);
                    }
                }
            }
        }
        ok
    };
    sym::cover("interleaved", order.len() >= 2 && nl >= 3);
    sym::check("C11/interleaved-distfiles", same(&df, &want_d));
    sym::check("C11/interleaved-patchfiles", same(&pf, &want_p));
    // lookups by name agree
    for w in 0..4usize {
        let p = PathBuf::from(OsString::from_vec(names[w].to_vec()));
        let e = if spec_is_patch(names[w]) { d.get_patchfile(&p) } else { d.get_distfile(&p) };
        sym::check("C11/get-by-name", e.is_some() == order.contains(&w));
    }
}
