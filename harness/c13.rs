//! C13 Digests equal the standard algorithms for every input and every read pattern.
use super::c10::{alg_of, ALGS};
use super::{spec, sym};
use crate::digest::{Digest, DigestError};
use std::io::{self, Read};
use std::str::FromStr;

/// A reader driven by a symbolic schedule: each call is a 1-byte read, a read of everything that
/// fits, `Interrupted`, or (once) a hard error.  After `budget` scheduled calls it behaves.
pub struct Sched<'a> {
    pub data: &'a [u8],
    pub pos: usize,
    pub calls: usize,
    pub budget: usize,
    pub failed: bool,
    pub allow_fail: bool,
}

impl<'a> Sched<'a> {
    pub fn new(data: &'a [u8], budget: usize, allow_fail: bool) -> Sched<'a> {
        Sched { data, pos: 0, calls: 0, budget, failed: false, allow_fail }
    }
}

impl<'a> Read for Sched<'a> {
    fn read(&mut self, buf: &mut [u8]) -> io::Result<usize> {
        let left = self.data.len() - self.pos;
        let room = if left < buf.len() { left } else { buf.len() };
        self.calls += 1;
        let act = if self.calls > self.budget || self.failed { 3 } else { sym::choose("act", if self.allow_fail { 4 } else { 3 } ) };
        // 0 interrupted, 1 one byte, 2/3(default) all that fits, 3 (when allowed) hard error
        let n = match act {
            0 => return Err(io::Error::new(io::ErrorKind::Interrupted, "again")),
            1 => {
                if room > 0 {
                    1
                } else {
                    0
                }
            }
            3 if self.calls <= self.budget && !self.failed => {
                self.failed = true;
                return Err(io::Error::new(io::ErrorKind::Other, "injected"));
            }
            _ => room,
        };
        buf[..n].copy_from_slice(&self.data[self.pos..self.pos + n]);
        self.pos += n;
        Ok(n)
    }
}

fn is_io_err(r: &Result<String, DigestError>) -> bool {
    matches!(r, Err(DigestError::Io(_)))
}

/// hash_file under every schedule equals the standard digest of the whole content; hex is lower
/// case, two characters per byte; a hard error is returned, never hashed past
pub fn h_file() {
    // the streaming code is one generic body shared by all six algorithms: the read schedule is
    // explored for two of them, the algorithm dimension in h_file_algs
    let a = if sym::choose("alg", 2) == 0 { 1 } else { 5 };
    let content = sym::any_bytes("content", "bytes", 0, sym::bound(3, 5));
    let mut r = Sched::new(&content, sym::bound(3, 4), true);
    let got = alg_of(a).hash_file(&mut r);
    check_file(a, &content, r.failed, got);
}

fn check_file(a: usize, content: &[u8], failed: bool, got: Result<String, DigestError>) {
    let want = sym::digest_hex(a, content);
    sym::cover("hard-error", failed);
    if failed {
        sym::check("C13/read-error-returned", is_io_err(&got));
    } else {
        sym::cover("hashed", got.is_ok());
        match got {
            Ok(h) => {
                sym::check("C13/file-digest", spec::bytes_eq(h.as_bytes(), want.as_bytes()));
                let mut lower_hex = true;
                for c in h.as_bytes() {
                    lower_hex = lower_hex & (((*c >= b'0') & (*c <= b'9')) | ((*c >= b'a') & (*c <= b'f')));
                }
                sym::check("C13/lower-case-hex", lower_hex);
                let full = [64usize, 32, 40, 40, 64, 128][a];
                sym::check("C13/full-length", h.len() == full);
            }
            Err(_) => sym::check("C13/file-digest-ok", false),
        }
    }
}

/// every algorithm, short contents, one interrupted and one short read
pub fn h_file_algs() {
    let a = sym::choose("alg", 6);
    let content = sym::any_bytes("content", "bytes", 0, sym::bound(2, 3));
    let mut r = Sched::new(&content, 1, false);
    let got = alg_of(a).hash_file(&mut r);
    check_file(a, &content, false, got);
}

/// the string entry point gives the same digest
pub fn h_str() {
    let a = sym::choose("alg", 6);
    let s = sym::any_str("s", "utf8", 0, sym::bound(2, 3));
    let got = alg_of(a).hash_str(&s);
    let want = sym::digest_hex(a, s.as_bytes());
    let mut r = Sched::new(s.as_bytes(), 2, false);
    let via_reader = alg_of(a).hash_file(&mut r);
    match (got, via_reader) {
        (Ok(h), Ok(h2)) => {
            sym::cover("hashed", true);
            sym::check("C13/str-digest", spec::bytes_eq(h.as_bytes(), want.as_bytes()));
            sym::check("C13/str-equals-reader", h == h2);
        }
        _ => sym::check("C13/str-ok", false),
    }
}

/// reference: drop every line containing "$NetBSD", newline-terminate the last line
pub fn spec_patch_filter(content: &[u8]) -> Vec<u8> {
    let mut out: Vec<u8> = Vec::new();
    let mut start = 0;
    let mut i = 0;
    while i <= content.len() {
        if i == content.len() || content[i] == b'\n' {
            if !(i == content.len() && start == i) {
                let line = &content[start..i];
                let mut marked = false;
                let mut k = 0;
                while k + 7 <= line.len() {
                    marked = marked | spec::bytes_eq(&line[k..k + 7], b"$NetBSD");
                    k += 1;
                }
                if !marked {
                    out.extend_from_slice(line);
                    out.push(b'\n');
                }
            }
            start = i + 1;
        }
        i += 1;
    }
    out
}

fn patch_content() -> Vec<u8> {
    let mut c: Vec<u8> = Vec::new();
    let n = sym::choose("ntok", sym::bound(3, 4) + 1);
    let mut i = 0;
    while i < n {
        match sym::choose("tok", 5) {
            0 => c.extend_from_slice(b"$NetBSD"),
            1 => c.push(b'\n'),
            2 => c.push(sym::any_u8("byte")),
            3 => c.extend_from_slice(b"$Net"),
            _ => c.extend_from_slice(b"BSD"),
        }
        i += 1;
    }
    c
}

pub fn h_patch() {
    let a = sym::choose("alg", 2) * 4; // BLAKE2s / SHA256: the filter does not depend on the algorithm
    let content = patch_content();
    let mut r = Sched::new(&content, sym::bound(2, 3), true);
    let got = alg_of(a).hash_patch(&mut r);
    let filtered = spec_patch_filter(&content);
    sym::cover("line-removed", filtered.len() + 7 <= content.len());
    if r.failed {
        sym::check("C13/patch-read-error-returned", is_io_err(&got));
    } else {
        match got {
            Ok(h) => sym::check("C13/patch-digest", spec::bytes_eq(h.as_bytes(), sym::digest_hex(a, &filtered).as_bytes())),
            Err(_) => sym::check("C13/patch-digest-ok", false),
        }
    }
}

/// every algorithm goes through the same patch filter
pub fn h_patch_algs() {
    let a = sym::choose("alg", 6);
    let content: &[u8] = match sym::choose("sample", 3) {
        0 => b"a\n$NetBSD: x $\nb",
        1 => b"$NetBSD\n",
        _ => b"x$NetBSDy",
    };
    let mut r = Sched::new(content, 1, false);
    let got = alg_of(a).hash_patch(&mut r);
    match got {
        Ok(h) => sym::check("C13/patch-alg", spec::bytes_eq(h.as_bytes(), sym::digest_hex(a, &spec_patch_filter(content)).as_bytes())),
        Err(_) => sym::check("C13/patch-alg-ok", false),
    }
}

/// algorithm names parse case-insensitively and print in canonical spelling
pub fn h_names() {
    let i = sym::choose("name", 6);
    let mut s: Vec<u8> = ALGS[i].as_bytes().to_vec();
    match sym::choose("edit", 5) {
        0 => {}
        1 => {
            let k = sym::choose("at", s.len());
            s[k] ^= 0x20; // flip the case of a letter (or mangle a digit)
        }
        2 => {
            let k = sym::choose("at", s.len());
            s[k] = sym::any_u8("byte");
        }
        3 => {
            let k = sym::choose("at", s.len());
            s.remove(k);
        }
        _ => s.push(sym::any_u8("byte")),
    }
    let st = match String::from_utf8(s.clone()) {
        Ok(st) => st,
        Err(_) => return,
    };
    let got = Digest::from_str(&st);
    // expected: ASCII-case-insensitive equality with one of the six names
    let mut want: Option<usize> = None;
    for (j, n) in ALGS.iter().enumerate() {
        let nb = n.as_bytes();
        if nb.len() == s.len() {
            let mut eq = true;
            for k in 0..nb.len() {
                let (x, y) = (s[k], nb[k]);
                let lx = if x >= b'A' && x <= b'Z' { x + 32 } else { x };
                let ly = if y >= b'A' && y <= b'Z' { y + 32 } else { y };
                eq = eq & (lx == ly);
            }
            if eq {
                want = Some(j);
            }
        }
    }
    sym::cover("parsed", got.is_ok());
    sym::cover("rejected", got.is_err());
    let ascii = s.iter().all(|b| *b < 0x80);
    match got {
        Ok(d) => {
            sym::check("C13/name-accepted-only-if-known", !ascii | (want.is_some() && d == alg_of(want.unwrap())));
            if let Some(j) = want {
                sym::check("C13/canonical-display", d.to_string() == ALGS[j]);
            }
        }
        Err(_) => sym::check("C13/known-name-accepted", want.is_none()),
    }
}

/// Published-style test vectors: digests of "" / "abc" / 'a' x {55, 56, 63, 64, 119, 128} (the block
/// boundaries) computed with OpenSSL (python hashlib) when this harness was written -- an oracle
/// independent of the RustCrypto crates the library uses.  (n = 3 stands for "abc".)
pub const VECTORS: &[(usize, usize, &str)] = &[
    (0, 0, "69217a3079908094e11121d042354a7c1f55b6482ca1a51e1b250dfd1ed0eef9"),
    (1, 0, "d41d8cd98f00b204e9800998ecf8427e"),
    (2, 0, "9c1185a5c5e9fc54612808977ee8f548b2258d31"),
    (3, 0, "da39a3ee5e6b4b0d3255bfef95601890afd80709"),
    (4, 0, "e3b0c44298fc1c149afbf4c8996fb92427ae41e4649b934ca495991b7852b855"),
    (5, 0, "cf83e1357eefb8bdf1542850d66d8007d620e4050b5715dc83f4a921d36ce9ce47d0d13c5d85f2b0ff8318d2877eec2f63b931bd47417a81a538327af927da3e"),
    (0, 3, "508c5e8c327c14e2e1a72ba34eeb452f37458b209ed63a294d999b4c86675982"),
    (1, 3, "900150983cd24fb0d6963f7d28e17f72"),
    (2, 3, "8eb208f7e05d987a9b044a8e98c6b087f15a0bfc"),
    (3, 3, "a9993e364706816aba3e25717850c26c9cd0d89d"),
    (4, 3, "ba7816bf8f01cfea414140de5dae2223b00361a396177a9cb410ff61f20015ad"),
    (5, 3, "ddaf35a193617abacc417349ae20413112e6fa4e89a97ea20a9eeee64b55d39a2192992a274fc1a836ba3c23a3feebbd454d4423643ce80e2a9ac94fa54ca49f"),
    (0, 55, "8265e9235687e0db03e94d2827d2c44f5bcb2c9a51e3cd3198078500bc58e5f1"),
    (1, 55, "ef1772b6dff9a122358552954ad0df65"),
    (2, 55, "0d8a8c9063a48576a7c97e9f95253a6e53ff6765"),
    (3, 55, "c1c8bbdc22796e28c0e15163d20899b65621d65a"),
    (4, 55, "9f4390f8d30c2dd92ec9f095b65e2b9ae9b0a925a5258e241c9f1e910f734318"),
    (5, 55, "b0220c772cbf6c1822e2cb38a437d0e1d58772417a4bbb21c961364f8b6143e05aa6316dca8d1d7b19e16448419076395f6086cb55101fbd6d5497b148e1745f"),
    (0, 56, "9d5b6436d9c8ae3b397f25afece0afe865b26748ae4986360bf2fd0ae0b28dd6"),
    (1, 56, "3b0c8ac703f828b04c6c197006d17218"),
    (2, 56, "e72334b46c83cc70bef979e15453706c95b888be"),
    (3, 56, "c2db330f6083854c99d4b5bfb6e8f29f201be699"),
    (4, 56, "b35439a4ac6f0948b6d6f9e3c6af0f5f590ce20f1bde7090ef7970686ec6738a"),
    (5, 56, "962b64aae357d2a4fee3ded8b539bdc9d325081822b0bfc55583133aab44f18bafe11d72a7ae16c79ce2ba620ae2242d5144809161945f1367f41b3972e26e04"),
    (0, 63, "9a4267618070af968ff2a0fdaecc62b5c15ab91cb4a56424ba9fcad20aab417c"),
    (1, 63, "b06521f39153d618550606be297466d5"),
    (2, 63, "e640041293fe663b9bf3f8c21ffecac03819e6b2"),
    (3, 63, "03f09f5b158a7a8cdad920bddc29b81c18a551f5"),
    (4, 63, "7d3e74a05d7db15bce4ad9ec0658ea98e3f06eeecf16b4c6fff2da457ddc2f34"),
    (5, 63, "c1b0f5c6d3b03dfe4a2602e67242f54e344090b66e01100a469b129f583f016c7e27dddeaa438393dcc7ec54b0b57c9ba7af007f9b56db5f6fb677d972a31362"),
    (0, 64, "651d2f5f20952eacaea2fba2f2af2bcd633e511ea2d2e4c9ae2ac0d9ffb7b252"),
    (1, 64, "014842d480b571495a4a0363793f7367"),
    (2, 64, "9dfb7d374ad924f3f88de96291c33e9abed53e32"),
    (3, 64, "0098ba824b5c16427bd7a1122a5a442a25ec644d"),
    (4, 64, "ffe054fe7ae0cb6dc65c3af9b61d5209f439851db43d0ba5997337df154668eb"),
    (5, 64, "01d35c10c6c38c2dcf48f7eebb3235fb5ad74a65ec4cd016e2354c637a8fb49b695ef3c1d6f7ae4cd74d78cc9c9bcac9d4f23a73019998a7f73038a5c9b2dbde"),
    (0, 119, "c02dbca30d14fc92666714ad0d070ff9f53e4c1ce2fe1b9fe9ea0cbb567f82be"),
    (1, 119, "8a7bd0732ed6a28ce75f6dabc90e1613"),
    (2, 119, "23e398ff2bac815aa1bbb57ca2a669c841872919"),
    (3, 119, "ee971065aaa017e0632a8ca6c77bb3bf8b1dfc56"),
    (4, 119, "31eba51c313a5c08226adf18d4a359cfdfd8d2e816b13f4af952f7ea6584dcfb"),
    (5, 119, "130396a75cb483f2eee8c56d8a668bb3d2641f5243212c0bee2bd33da096ad9eb8179fe18f9eaacf76e09fae9de4c3f14ba13341e345be05bf76c182cc3468cb"),
    (0, 128, "3ac477e27353f9019b81694afe60c8049403784f91a58288428ea318bfa82809"),
    (1, 128, "e510683b3f5ffe4093d021808bc6ff70"),
    (2, 128, "8dfdfb32b2ed5cb41a73478b4fd60cc5b4648b15"),
    (3, 128, "ad5b3fdbcb526778c2839d2f151ea753995e26a0"),
    (4, 128, "6836cf13bac400e9105071cd6af47084dfacad4e5e302c94bfed24e013afb73e"),
    (5, 128, "b73d1929aa615934e61a871596b3f3b33359f42b8175602e89f7e06e5f658a243667807ed300314b95cacdd579f3e33abdfbe351909519a846d465c59582f321"),
];

pub fn h_vectors() {
    let k = sym::choose("vector", VECTORS.len());
    let (a, n, want) = VECTORS[k];
    let data: Vec<u8> = if n == 3 { b"abc".to_vec() } else { vec![b'a'; n] };
    let text = String::from_utf8(data.clone()).unwrap();
    let via_str = alg_of(a).hash_str(&text);
    let mut r = Sched::new(&data, 0, false);
    let via_file = alg_of(a).hash_file(&mut r);
    sym::cover("vector", true);
    sym::check("C13/vector-str", matches!(via_str, Ok(ref h) if h == want));
    sym::check("C13/vector-file", matches!(via_file, Ok(ref h) if h == want));
}
