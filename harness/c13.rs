//! C13 Digests equal the standard algorithms for every input and every read pattern.
use super::c10::{alg_of, ALGS};
use super::{spec, sym};
use crate::digest::{Digest, DigestError};
use std::io::{self, Read};
use std::str::FromStr;

/// A reader driven by a symbolic schedule: each call is a 1-byte read, a read of everything that
/// fits, `Interrupted`, or (once) a hard error.  After `budget` scheduled calls it behaves.
pub struct Sched<'a> {
    pub data: &'a [u8],
    pub pos: usize,
    pub calls: usize,
    pub budget: usize,
    pub failed: bool,
    pub allow_fail: bool,
}

impl<'a> Sched<'a> {
    pub fn new(data: &'a [u8], budget: usize, allow_fail: bool) -> Sched<'a> {
        Sched { data, pos: 0, calls: 0, budget, failed: false, allow_fail }
    }
}

impl<'a> Read for Sched<'a> {
    fn read(&mut self, buf: &mut [u8]) -> io::Result<usize> {
        let left = self.data.len() - self.pos;
        let room = if left < buf.len() { left } else { buf.len() };
        self.calls += 1;
        let act = if self.calls > self.budget || self.failed { 3 } else { sym::choose("act", if self.allow_fail { 4 } else { 3 } ) };
        // 0 interrupted, 1 one byte, 2/3(default) all that fits, 3 (when allowed) hard error
        let n = match act {
            0 => return Err(io::Error::new(io::ErrorKind::Interrupted, "again")),
            1 => {
                if room > 0 {
                    1
                } else {
                    0
                }
            }
            3 if self.calls <= self.budget && !self.failed => {
                self.failed = true;
                return Err(io::Error::new(io::ErrorKind::Other, "injected"));
            }
            _ => room,
        };
        buf[..n].copy_from_slice(&self.data[self.pos..self.pos + n]);
        self.pos += n;
        Ok(n)
    }
}

fn is_io_err(r: &Result<String, DigestError>) -> bool {
    matches!(r, Err(DigestError::Io(_)))
}

/// hash_file under every schedule equals the standard digest of the whole content; hex is lower
/// case, two characters per byte; a hard error is returned, never hashed past
pub fn h_file() {
    // the streaming code is one generic body shared by all six algorithms: the read schedule is
    // explored for two of them, the algorithm dimension in h_file_algs
    let a = if sym::choose("alg", 2) == 0 { 1 } else { 5 };
    let content = sym::any_bytes("content", "bytes", 0, sym::bound(3, 5));
    let mut r = Sched::new(&content, sym::bound(3, 4), true);
    let got = alg_of(a).hash_file(&mut r);
    check_file(a, &content, r.failed, got);
}

fn check_file(a: usize, content: &[u8], failed: bool, got: Result<String, DigestError>) {
    let want = sym::digest_hex(a, content);
    sym::cover("hard-error", failed);
    if failed {
        sym::check("C13/read-error-returned", is_io_err(&got));
    } else {
        sym::cover("hashed", got.is_ok());
        match got {
            Ok(h) => {
                sym::check("C13/file-digest", spec::bytes_eq(h.as_bytes(), want.as_bytes()));
                let mut lower_hex = true;
                for c in h.as_bytes() {
                    lower_hex = lower_hex & (((*c >= b'0') & (*c <= b'9')) | ((*c >= b'a') & (*c <= b'f')));
                }
                sym::check("C13/lower-case-hex", lower_hex);
                let full = [64usize, 32, 40, 40, 64, 128][a];
                sym::check("C13/full-length", h.len() == full);
            }
            Err(_) => sym::check("C13/file-digest-ok", false),
        }
    }
}

/// every algorithm, short contents, one interrupted and one short read
pub fn h_file_algs() {
    let a = sym::choose("alg", 6);
    let content = sym::any_bytes("content", "bytes", 0, sym::bound(2, 3));
    let mut r = Sched::new(&content, 1, false);
    let got = alg_of(a).hash_file(&mut r);
    check_file(a, &content, false, got);
}

/// the string entry point gives the same digest
pub fn h_str() {
    let a = sym::choose("alg", 6);
    let s = sym::any_str("s", "utf8", 0, sym::bound(2, 3));
    let got = alg_of(a).hash_str(&s);
    let want = sym::digest_hex(a, s.as_bytes());
    let mut r = Sched::new(s.as_bytes(), 2, false);
    let via_reader = alg_of(a).hash_file(&mut r);
    match (got, via_reader) {
        (Ok(h), Ok(h2)) => {
            sym::cover("hashed", true);
            sym::check("C13/str-digest", spec::bytes_eq(h.as_bytes(), want.as_bytes()));
            sym::check("C13/str-equals-reader", h == h2);
        }
        _ => sym::check("C13/str-ok", false),
    }
}

/// reference: drop every line containing "$NetBSD", newline-terminate the last line
pub fn spec_patch_filter(content: &[u8]) -> Vec<u8> {
    let mut out: Vec<u8> = Vec::new();
    let mut start = 0;
    let mut i = 0;
    while i <= content.len() {
        if i == content.len() || content[i] == b'\n' {
            if !(i == content.len() && start == i) {
                let line = &content[start..i];
                let mut marked = false;
                let mut k = 0;
                while k + 7 <= line.len() {
                    marked = marked | spec::bytes_eq(&line[k..k + 7], b"$NetBSD");
                    k += 1;
                }
                if !marked {
                    out.extend_from_slice(line);
                    out.push(b'\n');
                }
            }
            start = i + 1;
        }
        i += 1;
    }
    out
}

fn patch_content() -> Vec<u8> {
    let mut c: Vec<u8> = Vec::new();
    let n = sym::choose("ntok", sym::bound(3, 4) + 1);
    let mut i = 0;
    while i < n {
        match sym::choose("tok", 5) {
            0 => c.extend_from_slice(b"$NetBSD"),
            1 => c.push(b'\n'),
            2 => c.push(sym::any_u8("byte")),
            3 => c.extend_from_slice(b"$Net"),
            _ => c.extend_from_slice(b"BSD"),
        }
        i += 1;
    }
    c
}

pub fn h_patch() {
    let a = sym::choose("alg", 2) * 4; // BLAKE2s / SHA256: the filter does not depend on the algorithm
    let content = patch_content();
    let mut r = Sched::new(&content, sym::bound(2, 3), true);
    let got = alg_of(a).hash_patch(&mut r);
    let filtered = spec_patch_filter(&content);
    sym::cover("line-removed", filtered.len() + 7 <= content.len());
    if r.failed {
        sym::check("C13/patch-read-error-returned", is_io_err(&got));
    } else {
        match got {
            Ok(h) => sym::check("C13/patch-digest", spec::bytes_eq(h.as_bytes(), sym::digest_hex(a, &filtered).as_bytes())),
            Err(_) => sym::check("C13/patch-digest-ok", false),
        }
    }
}

/// every algorithm goes through the same patch filter
pub fn h_patch_algs() {
    let a = sym::choose("alg", 6);
    let content: &[u8] = match sym::choose("sample", 3) {
        0 => b"a\n$NetBSD: x $\nb",
        1 => b"$NetBSD\n",
        _ => b"x$NetBSDy",
    };
    let mut r = Sched::new(content, 1, false);
    let got = alg_of(a).hash_patch(&mut r);
    match got {
        Ok(h) => sym::check("C13/patch-alg", spec::bytes_eq(h.as_bytes(), sym::digest_hex(a, &spec_patch_filter(content)).as_bytes())),
        Err(_) => sym::check("C13/patch-alg-ok", false),
    }
}

/// algorithm names parse case-insensitively and print in canonical spelling
pub fn h_names() {
    let i = sym::choose("name", 6);
    let mut s: Vec<u8> = ALGS[i].as_bytes().to_vec();
    match sym::choose("edit", 5) {
        0 => {}
        1 => {
            let k = sym::choose("at", s.len());
            s[k] ^= 0x20; // flip the case of a letter (or mangle a digit)
        }
        2 => {
            let k = sym::choose("at", s.len());
            s[k] = sym::any_u8("byte");
        }
        3 => {
            let k = sym::choose("at", s.len());
            s.remove(k);
        }
        _ => s.push(sym::any_u8("byte")),
    }
    let st = match String::from_utf8(s.clone()) {
        Ok(st) => st,
        Err(_) => return,
    };
    let got = Digest::from_str(&st);
    // expected: ASCII-case-insensitive equality with one of the six names
    let mut want: Option<usize> = None;
    for (j, n) in ALGS.iter().enumerate() {
        let nb = n.as_bytes();
        if nb.len() == s.len() {
            let mut eq = true;
            for k in 0..nb.len() {
                let (x, y) = (s[k], nb[k]);
                let lx = if x >= b'A' && x <= b'Z' { x + 32 } else { x };
                let ly = if y >= b'A' && y <= b'Z' { y + 32 } else { y };
                eq = eq & (lx == ly);
            }
            if eq {
                want = Some(j);
            }
        }
    }
    sym::cover("parsed", got.is_ok());
    sym::cover("rejected", got.is_err());
    let ascii = s.iter().all(|b| *b < 0x80);
    match got {
        Ok(d) => {
            sym::check("C13/name-accepted-only-if-known", !ascii | (want.is_some() && d == alg_of(want.unwrap())));
            if let Some(j) = want {
                sym::check("C13/canonical-display", d.to_string() == ALGS[j]);
            }
        }
        Err(_) => sym::check("C13/known-name-accepted", want.is_none()),
    }
}
