//! C12 Checksum and size verification passes only for files that really match.
use super::c10::{alg_of, ALGS};
use super::c13::spec_patch_filter;
use super::{spec, sym};
use crate::digest::Digest;
use crate::distinfo::{Checksum, Distinfo, DistinfoError, Entry};
use std::path::{Path, PathBuf};

fn content(patchy: bool) -> Vec<u8> {
    if !patchy {
        return sym::any_bytes("content", "bytes", 0, sym::bound(1, 3));
    }
    let mut c: Vec<u8> = Vec::new();
    let n = sym::choose("ntok", sym::bound(3, 4));
    let mut i = 0;
    while i < n {
        match sym::choose("tok", 3) {
            0 => c.extend_from_slice(b"$NetBSD"),
            1 => c.push(b'\n'),
            _ => c.push(sym::any_u8("byte")),
        }
        i += 1;
    }
    c
}

pub fn h_verify() {
    let root = sym::fs_root();
    let (name, is_patch) = match sym::choose("file", 5) {
        0 => ("d.tar.gz", false),
        4 => ("emul-patch-1.0.tgz", false),
        1 => ("sub/d.tgz", false),
        2 => ("patch-aa", true),
        _ => ("patch-2.7.tar.xz", false),
    };
    let data = content(is_patch);
    let path = root.join(name);
    sym::fs_add_file(&path, &data);
    // what the distinfo records
    let a = sym::choose("alg", 6);
    let other = (a + 1 + if sym::bound(0, 1) == 1 { sym::choose("other", 5) } else { data.len() % 5 }) % 6;
    // scenarios: (recorded content, recorded hash, recorded size)
    let sc = sym::choose("scenario", 5);
    let basis: Vec<u8> = match sc {
        0 | 3 => data.clone(),
        1 => {
            if is_patch {
                b"x\n$NetBSD$\n".to_vec()
            } else {
                sym::any_bytes("content2", "bytes", 0, 1)
            }
        }
        _ => {
            let mut d = data.clone();
            d.push(b'!');
            d
        }
    };
    let filtered_basis = if is_patch { spec_patch_filter(&basis) } else { basis.clone() };
    let recorded_hash = if sc == 3 { sym::any_str("junk", "hex:30-39,61-66", 0, 2) } else { sym::digest_hex(a, &filtered_basis) };
    let recorded_size: Option<u64> = match sc {
        0 => Some(data.len() as u64),
        1 => Some(data.len() as u64 + 1),
        2 => None,
        3 => Some(sym::any_u64("size")),
        _ => Some(data.len() as u64),
    };
    let mut di = Distinfo::new();
    let e = Entry::new(name, name, vec![Checksum::new(alg_of(a), recorded_hash.clone())], recorded_size);
    di.insert(e);

    // ---- size
    let got = di.verify_size(&path);
    match recorded_size {
        None => sym::check("C12/missing-size", matches!(got, Err(DistinfoError::MissingSize(_)))),
        Some(s) => {
            if s == data.len() as u64 {
                sym::cover("size-ok", true);
                sym::check("C12/size-ok", matches!(got, Ok(n) if n == s));
            } else {
                sym::cover("size-mismatch", true);
                sym::check(
                    "C12/size-mismatch-reported",
                    matches!(got, Err(DistinfoError::Size(_, exp, act)) if exp == s && act == data.len() as u64),
                );
            }
        }
    }
    // ---- checksum
    let actual = sym::digest_hex(a, &if is_patch { spec_patch_filter(&data) } else { data.clone() });
    let got = di.verify_checksum(&path, alg_of(a));
    let same = spec::bytes_eq(recorded_hash.as_bytes(), actual.as_bytes());
    sym::cover("checksum-ok", same);
    sym::cover("checksum-mismatch", !same);
    match got {
        Ok(d) => sym::check("C12/checksum-passes-only-if-equal", same & (d == alg_of(a))),
        Err(DistinfoError::Checksum(_, d, exp, act)) => {
            sym::check(
                "C12/checksum-mismatch-reported",
                !same & (d == alg_of(a)) & (exp == recorded_hash) & spec::bytes_eq(act.as_bytes(), actual.as_bytes()),
            );
        }
        Err(_) => sym::check("C12/checksum-error-kind", false),
    }
    // ---- unrecorded algorithm, unknown path
    let got = di.verify_checksum(&path, alg_of(other));
    sym::check("C12/missing-checksum", matches!(got, Err(DistinfoError::MissingChecksum(_, d)) if d == alg_of(other)));
    let nowhere = root.join("nowhere.tgz");
    sym::check("C12/not-found", matches!(di.verify_size(&nowhere), Err(DistinfoError::NotFound)));
    sym::check("C12/not-found-checksum", matches!(di.verify_checksum(&nowhere, alg_of(a)), Err(DistinfoError::NotFound)));
    // ---- calculate_* agree with the same model
    match Distinfo::calculate_size(&path) {
        Ok(n) => sym::check("C12/calculate-size", n == data.len() as u64),
        Err(_) => sym::check("C12/calculate-size-ok", false),
    }
    match Distinfo::calculate_checksum(&path, alg_of(a)) {
        Ok(h) => sym::check("C12/calculate-checksum", spec::bytes_eq(h.as_bytes(), actual.as_bytes())),
        Err(_) => sym::check("C12/calculate-checksum-ok", false),
    }
}

/// entries are located by the shortest recorded trailing sub-path
pub fn h_find() {
    let names = ["f.tgz", "s/f.tgz", "t/s/f.tgz", "x/f.tgz"];
    let mut di = Distinfo::new();
    let mut recorded = [false; 4];
    for k in 0..4 {
        if sym::choose("rec", 2) == 1 {
            recorded[k] = true;
            di.insert(Entry::new(names[k], names[k], vec![], Some(k as u64)));
        }
    }
    let lookups = ["f.tgz", "s/f.tgz", "t/s/f.tgz", "/abs/t/s/f.tgz", "q/f.tgz", "g.tgz"];
    let l = lookups[sym::choose("lookup", lookups.len())];
    // expected: walk the trailing sub-paths from the shortest
    let comps: Vec<&str> = l.split('/').filter(|c| !c.is_empty()).collect();
    let mut want: Option<usize> = None;
    let mut k = comps.len();
    while k > 0 && want.is_none() {
        k -= 1;
        let tail = comps[k..].join("/");
        for j in 0..4 {
            if recorded[j] && names[j] == tail {
                want = Some(j);
            }
        }
    }
    let got = di.find_entry(Path::new(l));
    sym::cover("found", got.is_ok());
    sym::cover("not-found", got.is_err());
    match (got, want) {
        (Ok(e), Some(j)) => sym::check("C12/find-shortest-trailing", e.filename == PathBuf::from(names[j])),
        (Err(DistinfoError::NotFound), None) => sym::check("C12/find-not-found", true),
        _ => sym::check("C12/find-entry", false),
    }
}
