//! Mounted as `crate::dewey::verif_in` in the scratch copy: accessors for private fields.
use super::*;

pub fn parts(dv: &DeweyVersion) -> (&Vec<i64>, i64) {
    (&dv.version, dv.pkgrevision)
}
pub fn make(version: Vec<i64>, pkgrevision: i64) -> DeweyVersion {
    DeweyVersion { version, pkgrevision }
}
