//! Verification harnesses for pkgsrc-rs, mounted into a scratch copy of the crate as
//! `crate::verif_harness` (see /verif/DESIGN.md).  Executed symbolically from their MIR by
//! mirsym and natively for replay.
#![allow(dead_code, unused_imports, clippy::all)]

#[cfg(kani)]
pub mod kani_h;
pub mod sym;
pub mod spec;
pub mod c01;
pub mod c02;
pub mod c03;
pub mod c04;
pub mod c05;
pub mod c06;
pub mod c07;
pub mod c08;
pub mod c09;
pub mod c10;
pub mod c12;
pub mod c13;
pub mod c14;
pub mod c15;
pub mod c16;
pub mod c17;
pub mod c18;
pub mod c19;
pub mod c20;

macro_rules! table {
    ($($m:ident :: $f:ident),* $(,)?) => {
        pub fn run(name: &str) -> bool {
            $( if name == concat!(stringify!($m), "::", stringify!($f)) { $m::$f(); return true; } )*
            false
        }
        pub const HARNESSES: &[&str] = &[ $( concat!(stringify!($m), "::", stringify!($f)) ),* ];
    };
}

table! {
    c01::h_tokeniser,
    c01::h_cmp,
    c01::h_glue,
    c01::h_token_strings,
    c02::h_compile,
    c02::h_match,
    c02::h_base_bytes,
    c18::h_any,
    c18::h_tokens,
    c04::h_any,
    c04::h_skeletons,
    c04::h_nesting,
    c05::h_inert,
    c05::h_glob,
    c05::h_glob_special,
    c06::h_pair,
    c06::h_triple,
    c14::h_entry,
    c14::h_list_small,
    c14::h_list_lines,
    c15::h_all_kinds,
    c15::h_files,
    c15::h_repeats,
    c07::h_roundtrip,
    c08::h_edits,
    c08::h_completed,
    c08::h_missing_with_optional,
    c09::h_cuts,
    c09::h_chunks,
    c09::h_malformed,
    c19::h_pkgpath_any,
    c19::h_pkgpath_segments,
    c19::h_depend,
    c10::h_roundtrip_text,
    c10::h_roundtrip_api,
    c10::h_classify,
    c10::h_lines,
    c10::h_interleave,
    c16::h_records,
    c16::h_io_error,
    c13::h_file,
    c13::h_file_algs,
    c13::h_str,
    c13::h_patch,
    c13::h_patch_algs,
    c13::h_names,
    c13::h_vectors,
    c12::h_verify,
    c12::h_find,
    c20::h_iterate,
    c20::h_filenames,
    c20::h_is_valid,
    c17::h_pattern,
    c17::h_pattern_tokens,
    c17::h_names,
    c17::h_revision_digits,
    c17::h_summary_text,
    c17::h_summary_stream,
    c17::h_bytes_parsers,
    c17::h_distinfo_line,
    c17::h_plist_line,
    c17::h_scanindex,
    c17::h_metadata,
    c17::h_pkgdb,
    c17::h_summary_calls,
    c17::h_long,
    c03::h_laws2,
    c03::h_trans,
    c03::h_api_laws,
    c03::h_two_bounds,
}

/// Entry point of the native replay binary.
pub fn replay_main() {
    let args: Vec<String> = std::env::args().collect();
    let script = std::fs::read_to_string(&args[1]).expect("script");
    std::panic::set_hook(Box::new(|_| {}));
    let out = sym::replay_batch(&script, &|h| run(h));
    std::fs::write(&args[2], out).expect("write");
}
