//! C05 Glob and plain patterns: whole-name match, right dispatch, inert fast-reject.
use super::{spec, sym};
use crate::pattern::verif_in;
use crate::Pattern;

/// The shortcut never changes an answer, for every kind of pattern.
pub fn h_inert() {
    let n = sym::bound(3, 4);
    let p = sym::any_str("p", "set:ab-1*?[]!>{},é", 0, n);
    let name = sym::any_str("name", "set:ab-1é", 0, sym::bound(3, 4));
    let c = match Pattern::new(&p) {
        Ok(c) => c,
        Err(_) => return,
    };
    let plain = verif_in::without_shortcut(&c);
    let got = c.matches(&name);
    sym::observe_bool("matches", got);
    sym::cover("matched", got);
    sym::cover("kind-alt", verif_in::kind(&c) == 0);
    sym::cover("kind-dewey", verif_in::kind(&c) == 1);
    sym::cover("kind-glob", verif_in::kind(&c) == 2);
    sym::cover("kind-simple", verif_in::kind(&c) == 3);
    sym::check("C05/shortcut-inert", got == plain.matches(&name));
}

fn has(p: &str, set: &[u8]) -> bool {
    let mut h = false;
    for b in p.as_bytes() {
        for s in set {
            h = h | (*b == *s);
        }
    }
    h
}

/// dispatch + glob semantics + plain equality
pub fn h_glob() {
    let n = sym::bound(4, 5);
    let p = sym::any_str("p", "set:abc-*?[]!é", 0, n);
    let name = sym::any_str("name", "set:abc-]é", 0, sym::bound(3, 4));
    sym::assume(!p.contains("**"));
    let c = Pattern::new(&p);
    if has(&p, b"*?[]") {
        let pc = spec::chars_of(&p);
        let g = spec::glob_parse(&pc);
        sym::observe_bool("compiles", c.is_ok());
        sym::cover("malformed", g.is_none());
        sym::check("C05/malformed-glob-reported", c.is_ok() == g.is_some());
        if let (Ok(c), Some(g)) = (c, g) {
            sym::check("C05/dispatch-glob", verif_in::kind(&c) == 2);
            let nc = spec::chars_of(&name);
            let want = spec::glob_match(&g, 0, &nc, 0);
            let got = c.matches(&name);
            sym::observe_bool("matches", got);
            sym::cover("glob-matched", got);
            sym::check("C05/glob-whole-name", got == want);
        }
    } else {
        let c = match c {
            Ok(c) => c,
            Err(_) => {
                sym::check("C05/plain-compiles", false);
                return;
            }
        };
        sym::check("C05/dispatch-plain", verif_in::kind(&c) == 3);
        let got = c.matches(&name);
        sym::cover("plain-matched", got);
        sym::check("C05/plain-identical", got == spec::bytes_eq(p.as_bytes(), name.as_bytes()));
    }
}

/// glob shapes against names with characters that shell-style matchers like to special-case: a leading '.', '/',
/// upper case (the match is case-sensitive, and '*', '?' and sets match '.' and '/' like any other character)
pub fn h_glob_special() {
    let shapes = ["*", "?", "?*", "*?", "[!b]*", "[a-c]*", "a*", "*a", "?a", "a?", "*/*", "*.*", "[.]*", "[A-Z]?"];
    let p = shapes[sym::choose("shape", shapes.len())];
    let name = sym::any_str("name", "set:a.A/bé", 0, sym::bound(3, 4));
    let c = match Pattern::new(p) {
        Ok(c) => c,
        Err(_) => {
            sym::check("C05/special-compiles", false);
            return;
        }
    };
    let pc = spec::chars_of(p);
    let g = spec::glob_parse(&pc).unwrap();
    let nc = spec::chars_of(&name);
    let want = spec::glob_match(&g, 0, &nc, 0);
    let got = c.matches(&name);
    sym::observe_bool("matches", got);
    sym::cover("special-matched", got);
    sym::cover("special-rejected", !got);
    sym::check("C05/glob-special-chars", got == want);
}
