//! Symbolic-input intrinsics.
//!
//! Under mirsym every function in this module is intercepted *by name* and given its
//! symbolic meaning (the bodies below are never interpreted).  Compiled natively the same
//! functions read their values from a replay script, so that every solver witness and every
//! counterexample can be re-executed against the real build.
#![allow(dead_code)]

use std::cell::RefCell;
use std::collections::VecDeque;

#[derive(Default)]
pub struct Native {
    pub inputs: VecDeque<(String, String, String)>, // (kind, tag, value)
    pub out: Vec<String>,
}

thread_local! {
    pub static NATIVE: RefCell<Native> = RefCell::new(Native::default());
}

fn next(kind: &str, tag: &str) -> String {
    NATIVE.with(|n| {
        let mut n = n.borrow_mut();
        match n.inputs.pop_front() {
            Some((k, t, v)) => {
                if k != kind || t != tag {
                    panic!("replay desync: wanted {} {} got {} {}", kind, tag, k, t);
                }
                v
            }
            None => panic!("replay exhausted at {} {}", kind, tag),
        }
    })
}

fn emit(s: String) {
    NATIVE.with(|n| n.borrow_mut().out.push(s));
}

fn unhex(s: &str) -> Vec<u8> {
    let b = s.as_bytes();
    let mut v = Vec::new();
    let mut i = 0;
    while i + 1 < b.len() {
        let h = |c: u8| -> u8 {
            match c {
                b'0'..=b'9' => c - b'0',
                b'a'..=b'f' => c - b'a' + 10,
                _ => panic!("bad hex"),
            }
        };
        v.push(h(b[i]) * 16 + h(b[i + 1]));
        i += 2;
    }
    v
}

pub fn hex(b: &[u8]) -> String {
    let mut s = String::new();
    for x in b {
        s.push_str(&format!("{:02x}", x));
    }
    s
}

/// An arbitrary byte.
pub fn any_u8(tag: &str) -> u8 {
    next("u8", tag).parse().unwrap()
}
/// An arbitrary boolean (symbolic, does not fork by itself).
pub fn any_bool(tag: &str) -> bool {
    next("bool", tag) == "1"
}
pub fn any_i64(tag: &str) -> i64 {
    next("i64", tag).parse().unwrap()
}
pub fn any_u64(tag: &str) -> u64 {
    next("u64", tag).parse().unwrap()
}
/// A value in 0..n; the engine forks over all n values (the result is concrete on each path).
pub fn choose(tag: &str, n: usize) -> usize {
    let v: usize = next("choose", tag).parse().unwrap();
    assert!(v < n);
    v
}
/// Byte string of `min..=max` units drawn from alphabet `alpha`; the engine forks on the length
/// (and on the byte-length of each unit where the alphabet has multi-byte units).
pub fn any_bytes(tag: &str, _alpha: &str, _min: usize, _max: usize) -> Vec<u8> {
    unhex(&next("bytes", tag))
}
/// As `any_bytes`, for alphabets that only produce valid UTF-8.
pub fn any_str(tag: &str, _alpha: &str, _min: usize, _max: usize) -> String {
    String::from_utf8(unhex(&next("bytes", tag))).expect("alphabet must be UTF-8")
}
/// Restrict the inputs considered (echoed into the evidence).
pub fn assume(c: bool) {
    if !c {
        emit("ASSUME-FAILED".to_string());
        std::panic::panic_any(AssumeFailed);
    }
}
pub struct AssumeFailed;
/// The property: the solver is asked for `path-condition && !c`.
pub fn check(id: &str, c: bool) {
    emit(format!("CHECK {} {}", id, c as u8));
}
/// Vacuity witness: some explored path must reach this with `c` satisfiable.
pub fn cover(id: &str, c: bool) {
    emit(format!("COVER {} {}", id, c as u8));
}
pub fn observe_bool(tag: &str, v: bool) {
    emit(format!("OBS {} {}", tag, v as u8));
}
pub fn observe_i64(tag: &str, v: i64) {
    emit(format!("OBS {} {}", tag, v));
}
pub fn observe_u64(tag: &str, v: u64) {
    emit(format!("OBS {} {}", tag, v));
}
pub fn observe_usize(tag: &str, v: usize) {
    emit(format!("OBS {} {}", tag, v));
}
pub fn observe_bytes(tag: &str, v: &[u8]) {
    emit(format!("OBS {} x{}", tag, hex(v)));
}
pub fn observe_str(tag: &str, v: &str) {
    emit(format!("OBS {} x{}", tag, hex(v.as_bytes())));
}
/// Known-finding marker: the engine records that role `role` was exercised on this path with a
/// deviation that is listed in known_findings.json (see kf.rs).
pub fn known_finding(role: &str, c: bool) {
    emit(format!("KF {} {}", role, c as u8));
}

/// Native replay driver: reads a batch of cases, runs `f` for each, prints the transcript.
pub fn replay_batch(script: &str, run: &dyn Fn(&str) -> bool) -> String {
    let mut outs = String::new();
    let mut lines = script.lines().peekable();
    while let Some(l) = lines.next() {
        let mut it = l.splitn(3, ' ');
        if it.next() != Some("CASE") {
            continue;
        }
        let id = it.next().unwrap().to_string();
        let harness = it.next().unwrap().to_string();
        let mut inputs = VecDeque::new();
        for l in lines.by_ref() {
            if l == "END" {
                break;
            }
            let mut p = l.splitn(3, ' ');
            let k = p.next().unwrap().to_string();
            let t = p.next().unwrap().to_string();
            let v = p.next().unwrap_or("").to_string();
            inputs.push_back((k, t, v));
        }
        NATIVE.with(|n| {
            let mut n = n.borrow_mut();
            n.inputs = inputs;
            n.out.clear();
        });
        let h = harness.clone();
        let r = std::panic::catch_unwind(std::panic::AssertUnwindSafe(|| run(&h)));
        fs_cleanup();
        outs.push_str(&format!("CASE {} {}\n", id, harness));
        NATIVE.with(|n| {
            for o in &n.borrow().out {
                outs.push_str(o);
                outs.push('\n');
            }
        });
        match r {
            Ok(true) => outs.push_str("DONE\n"),
            Ok(false) => outs.push_str("NOHARNESS\n"),
            Err(e) => {
                if e.downcast_ref::<AssumeFailed>().is_some() {
                    outs.push_str("DONE\n");
                } else {
                    let msg = if let Some(s) = e.downcast_ref::<&str>() {
                        s.to_string()
                    } else if let Some(s) = e.downcast_ref::<String>() {
                        s.clone()
                    } else {
                        "?".to_string()
                    };
                    outs.push_str(&format!("PANIC {}\n", msg.replace('\n', " ")));
                }
            }
        }
    }
    outs
}

/// Is `role` listed as a known finding in /verif/known_findings.json?
pub fn kf_listed(role: &str) -> bool {
    next("kf", role) == "1"
}

/// Tier-dependent bound: `q` in the quick tier, `t` in the thorough tier.
pub fn bound(_q: usize, _t: usize) -> usize {
    next("bound", "b").parse().unwrap()
}

/// Lower-case hex digest of `data` under algorithm `alg` (index into BLAKE2s, MD5, RMD160, SHA1,
/// SHA256, SHA512).  Symbolically this is an uninterpreted function per algorithm and length;
/// natively it is computed with the RustCrypto hashers directly (not through pkgsrc::digest).
pub fn digest_hex(alg: usize, data: &[u8]) -> String {
    use digest::Digest;
    let out: Vec<u8> = match alg {
        0 => blake2::Blake2s256::digest(data).to_vec(),
        1 => md5::Md5::digest(data).to_vec(),
        2 => ripemd::Ripemd160::digest(data).to_vec(),
        3 => sha1::Sha1::digest(data).to_vec(),
        4 => sha2::Sha256::digest(data).to_vec(),
        _ => sha2::Sha512::digest(data).to_vec(),
    };
    hex(&out)
}

// ------------------------------------------------------------------------------------------
// File-system stub.  Symbolically an in-memory tree (names and contents may be symbolic bytes,
// directory listing order is arbitrary); natively a real temporary directory.
thread_local! {
    static FS_ROOTS: RefCell<Vec<std::path::PathBuf>> = RefCell::new(Vec::new());
}

/// A fresh, empty directory; every path the harness creates must live below it.
pub fn fs_root() -> std::path::PathBuf {
    static CTR: std::sync::atomic::AtomicUsize = std::sync::atomic::AtomicUsize::new(0);
    let n = CTR.fetch_add(1, std::sync::atomic::Ordering::SeqCst);
    let p = std::env::temp_dir().join(format!("verif-fs-{}-{}", std::process::id(), n));
    let _ = std::fs::remove_dir_all(&p);
    std::fs::create_dir_all(&p).expect("mkdir");
    FS_ROOTS.with(|r| r.borrow_mut().push(p.clone()));
    p
}
pub fn fs_add_file(path: &std::path::Path, content: &[u8]) {
    if let Some(d) = path.parent() {
        std::fs::create_dir_all(d).expect("mkdir");
    }
    std::fs::write(path, content).expect("write");
}
pub fn fs_add_dir(path: &std::path::Path) {
    std::fs::create_dir_all(path).expect("mkdir");
}
pub fn fs_cleanup() {
    FS_ROOTS.with(|r| {
        for p in r.borrow_mut().drain(..) {
            let _ = std::fs::remove_dir_all(p);
        }
    });
}
