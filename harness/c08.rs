//! C08 pkg_summary parsing accepts exactly complete well-formed entries, else says why.
use super::c07::{get_a, get_i, get_s, KIND, NAMES, REQUIRED};
use super::{spec, sym};
use crate::summary::{MissingVariable, Summary, SummaryError};
use std::str::FromStr;

/// error causes the statement distinguishes
#[derive(PartialEq)]
pub enum Cause {
    Line,
    Variable,
    Int,
    Missing(usize),
}

pub struct SpecSum {
    pub s: Vec<Option<Vec<u8>>>,
    pub a: Vec<Vec<Vec<u8>>>,
    pub i: Vec<Option<i64>>,
    pub plus_sign: bool,
}

fn name_index(n: &[u8]) -> Option<usize> {
    let mut k = 0;
    while k < 23 {
        if spec::bytes_eq(NAMES[k].as_bytes(), n) {
            return Some(k);
        }
        k += 1;
    }
    None
}

fn parse_i64(b: &[u8]) -> Option<i64> {
    let mut i = 0;
    let mut neg = false;
    if i < b.len() && (b[i] == b'-' || b[i] == b'+') {
        neg = b[i] == b'-';
        i += 1;
    }
    if i == b.len() {
        return None;
    }
    let mut n: i128 = 0;
    while i < b.len() {
        if b[i] < b'0' || b[i] > b'9' {
            return None;
        }
        n = n * 10 + (b[i] - b'0') as i128;
        if n > (1i128 << 64) {
            return None;
        }
        i += 1;
    }
    if neg {
        n = -n;
    }
    if n < i64::MIN as i128 || n > i64::MAX as i128 {
        return None;
    }
    Some(n as i64)
}

/// the statement, line by line; the first fault met is the cause, then missing variables in
/// pkg_summary order
pub fn spec_parse(text: &[u8]) -> Result<SpecSum, Cause> {
    let mut r = SpecSum { s: vec![None; 23], a: vec![Vec::new(); 23], i: vec![None; 23], plus_sign: false };
    let mut start = 0;
    let mut k = 0;
    while k <= text.len() {
        if k == text.len() || text[k] == b'\n' {
            if !(k == text.len() && start == k) {
                let line = &text[start..k];
                let mut e = 0;
                while e < line.len() && line[e] != b'=' {
                    e += 1;
                }
                if e == line.len() {
                    return Err(Cause::Line);
                }
                let v = match name_index(&line[0..e]) {
                    Some(v) => v,
                    None => return Err(Cause::Variable),
                };
                let val = &line[e + 1..];
                match KIND[v] {
                    0 => r.s[v] = Some(val.to_vec()),
                    1 => r.a[v].push(val.to_vec()),
                    _ => match parse_i64(val) {
                        Some(n) => {
                            r.i[v] = Some(n);
                            if val[0] == b'+' {
                                r.plus_sign = true;
                            }
                        }
                        None => return Err(Cause::Int),
                    },
                }
            }
            start = k + 1;
        }
        k += 1;
    }
    for q in REQUIRED.iter() {
        let present = match KIND[*q] {
            0 => r.s[*q].is_some(),
            1 => !r.a[*q].is_empty(),
            _ => r.i[*q].is_some(),
        };
        if !present {
            return Err(Cause::Missing(*q));
        }
    }
    Ok(r)
}

fn missing_index(m: &MissingVariable) -> usize {
    match m {
        MissingVariable::BuildDate => 0,
        MissingVariable::Categories => 1,
        MissingVariable::Comment => 2,
        MissingVariable::Description => 5,
        MissingVariable::MachineArch => 11,
        MissingVariable::Opsys => 12,
        MissingVariable::OsVersion => 13,
        MissingVariable::Pkgname => 15,
        MissingVariable::Pkgpath => 16,
        MissingVariable::PkgtoolsVersion => 17,
        MissingVariable::SizePkg => 21,
    }
}

fn compare(text: &[u8]) {
    let t = match std::str::from_utf8(text) {
        Ok(t) => t,
        Err(_) => return,
    };
    let got = Summary::from_str(t);
    let want = spec_parse(text);
    sym::observe_bool("accepted", got.is_ok());
    sym::cover("accepted", got.is_ok());
    sym::cover("rejected", got.is_err());
    match (got, want) {
        (Ok(g), Ok(w)) => {
            sym::check("C08/completed", g.is_completed());
            let mut ok = true;
            let mut v = 0;
            while v < 23 {
                match KIND[v] {
                    0 => {
                        ok = ok & match (get_s(&g, v), &w.s[v]) {
                            (Some(x), Some(y)) => spec::bytes_eq(x.as_bytes(), y),
                            (None, None) => true,
                            _ => false,
                        }
                    }
                    1 => {
                        ok = ok & match get_a(&g, v) {
                            Some(x) => {
                                let mut same = x.len() == w.a[v].len();
                                if same {
                                    for j in 0..x.len() {
                                        same = same & spec::bytes_eq(x[j].as_bytes(), &w.a[v][j]);
                                    }
                                }
                                same
                            }
                            None => w.a[v].is_empty(),
                        }
                    }
                    _ => ok = ok & (get_i(&g, v) == w.i[v]),
                }
                v += 1;
            }
            sym::check("C08/values", ok);
        }
        (Err(e), Err(c)) => {
            let same = match (&e, &c) {
                (SummaryError::ParseLine(_), Cause::Line) => true,
                (SummaryError::ParseVariable(_), Cause::Variable) => true,
                (SummaryError::ParseInt(_), Cause::Int) => true,
                (SummaryError::Incomplete(m), Cause::Missing(q)) => missing_index(m) == *q,
                _ => false,
            };
            sym::check("C08/error-cause", same);
        }
        (Ok(_), Err(_)) => sym::check("C08/should-reject", false),
        (Err(_), Ok(w)) => sym::check("C08/should-accept", w.plus_sign),
    }
}

fn base_lines() -> Vec<Vec<u8>> {
    let mut ls: Vec<Vec<u8>> = Vec::new();
    for q in REQUIRED.iter() {
        let mut l = NAMES[*q].as_bytes().to_vec();
        l.push(b'=');
        if KIND[*q] == 2 {
            l.push(b'4');
        } else {
            l.extend_from_slice(sym::any_str("v", "set:a= ", 1, 1).as_bytes());
        }
        ls.push(l);
    }
    ls
}

fn join(ls: &[Vec<u8>]) -> Vec<u8> {
    let mut t: Vec<u8> = Vec::new();
    for l in ls {
        t.extend_from_slice(l);
        t.push(b'\n');
    }
    t
}

/// a complete canonical entry with one symbolic edit
pub fn h_edits() {
    let mut ls = base_lines();
    let pos = sym::choose("pos", ls.len());
    match sym::choose("edit", 8) {
        0 => {
            ls.remove(pos); // drop a required variable
        }
        1 => {
            // replace the name by an arbitrary short string
            let mut l = sym::any_str("name", "set:AB_=x", 0, sym::bound(3, 4)).as_bytes().to_vec();
            l.extend_from_slice(b"=v");
            ls[pos] = l;
        }
        2 => {
            // one-byte corruption of a real name
            let k = sym::choose("at", 3);
            if k < ls[pos].len() {
                ls[pos][k] = sym::any_u8("byte");
            }
        }
        3 => ls.insert(pos, b"no equals sign".to_vec()),
        4 => {
            let which = if sym::choose("which", 2) == 0 { "FILE_SIZE=" } else { "SIZE_PKG=" };
            let mut l = which.as_bytes().to_vec();
            l.extend_from_slice(sym::any_str("num", "set:-+09x ", 0, sym::bound(3, 4)).as_bytes());
            ls.insert(pos, l);
        }
        5 => {
            let d = ls[pos].clone(); // duplicate a line with another value
            let mut d2 = d[0..d.len() - 1].to_vec();
            d2.push(b'z');
            ls.push(d2);
        }
        6 => {
            let opt = [3usize, 4, 6, 7, 9, 10, 14, 18, 19, 20, 22][sym::choose("opt", 11)];
            let mut l = NAMES[opt].as_bytes().to_vec();
            l.extend_from_slice(b"=a=b");
            ls.insert(pos, l.clone());
            ls.push(l);
        }
        _ => {
            let other = sym::choose("other", ls.len());
            ls.swap(pos, other);
        }
    }
    let text = join(&ls);
    compare(&text);
}

/// is_completed() is true exactly when the eleven are set, on API-built partial entries
pub fn h_completed() {
    let mut s = Summary::new();
    // which required variable (if any) is left out, and two optional ones that may be set
    let omit = sym::choose("omit", REQUIRED.len() + 2);
    let mut all = true;
    let mut k = 0;
    while k < REQUIRED.len() {
        let v = REQUIRED[k];
        if k == omit {
            all = false;
        } else {
            match KIND[v] {
                0 => super::c07::set_s(&mut s, v, "x"),
                1 => super::c07::push_a(&mut s, v, "x"),
                _ => super::c07::set_i(&mut s, v, 1),
            }
        }
        k += 1;
    }
    if omit == REQUIRED.len() + 1 {
        // nothing omitted, but set via a different kind of call as well
        super::c07::set_a(&mut s, 5, &["y".to_string()]);
    }
    let opt = [3usize, 4, 6, 7, 8, 9, 10, 14, 18, 19, 20, 22][sym::choose("opt", 12)];
    match KIND[opt] {
        0 => super::c07::set_s(&mut s, opt, "x"),
        1 => super::c07::push_a(&mut s, opt, "x"),
        _ => super::c07::set_i(&mut s, opt, 1),
    }
    sym::cover("complete", all);
    sym::cover("incomplete", !all);
    sym::check("C08/is_completed", s.is_completed() == all);
}

/// one required variable left out (or none) while one optional variable is present: which optional variables are
/// there must not influence which required ones are demanded
pub fn h_missing_with_optional() {
    let mut ls = base_lines();
    let omit = sym::choose("omit", ls.len() + 1);
    if omit < ls.len() {
        ls.remove(omit);
    }
    let opt = [3usize, 4, 6, 7, 8, 9, 10, 14, 18, 19, 20, 22][sym::choose("opt", 12)];
    let mut l = NAMES[opt].as_bytes().to_vec();
    l.push(b'=');
    l.push(if KIND[opt] == 2 { b'4' } else { b'x' });
    if sym::choose("at", 2) == 0 {
        ls.insert(0, l);
    } else {
        ls.push(l);
    }
    let text = join(&ls);
    compare(&text);
}
