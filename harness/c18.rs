//! C18 PKGNAME decomposition is lossless and consistent across the library.
use super::{spec, sym};
use crate::dewey::{verif_in, DeweyVersion};
use crate::PkgName;

fn common(s: &str) {
    let p = PkgName::new(s);
    let b = s.as_bytes();
    sym::observe_str("base", p.pkgbase());
    sym::observe_str("version", p.pkgversion());
    sym::check("C18/pkgname", p.pkgname() == s);
    match spec::last_dash(b) {
        Some(k) => {
            sym::cover("has-dash", true);
            sym::check("C18/base", spec::bytes_eq(p.pkgbase().as_bytes(), &b[0..k]));
            sym::check("C18/version", spec::bytes_eq(p.pkgversion().as_bytes(), &b[k + 1..]));
        }
        None => {
            sym::check("C18/base-nodash", spec::bytes_eq(p.pkgbase().as_bytes(), b));
            sym::check("C18/version-nodash", p.pkgversion().is_empty());
        }
    }
    // revision
    let v = p.pkgversion().as_bytes();
    // last "nb"
    let mut at: Option<usize> = None;
    let mut i = 0;
    while i + 1 < v.len() {
        if v[i] == b'n' && v[i + 1] == b'b' {
            at = Some(i);
        }
        i += 1;
    }
    let rev = p.pkgrevision();
    match rev {
        Some(r) => sym::observe_i64("rev", r),
        None => sym::observe_i64("rev", -1),
    }
    match at {
        None => sym::check("C18/no-nb-no-revision", rev.is_none()),
        Some(k) => {
            let digs = &v[k + 2..];
            let mut alld = digs.len() > 0;
            let mut n: i64 = 0;
            let mut j = 0;
            while j < digs.len() {
                let d = digs[j];
                alld = alld & (d >= b'0') & (d <= b'9');
                j += 1;
            }
            if alld && digs.len() <= 18 {
                j = 0;
                while j < digs.len() {
                    n = n * 10 + (digs[j] - b'0') as i64;
                    j += 1;
                }
                sym::cover("nb-digits", true);
                sym::check("C18/revision-value", rev == Some(n));
                let dv = DeweyVersion::new(p.pkgversion());
                let (_, dr) = verif_in::parts(&dv);
                sym::check("C18/revision-used-by-comparison", dr == n);
            }
        }
    }
    // pkg_summary accessors
    let mut sum = crate::summary::Summary::new();
    sum.set_pkgname(s);
    if !p.pkgbase().is_empty() && !p.pkgversion().is_empty() && spec::last_dash(b).is_some() {
        sym::check("C18/summary-base", sum.pkgbase() == Some(p.pkgbase()));
        sym::check("C18/summary-version", sum.pkgversion() == Some(p.pkgversion()));
    }
}

pub fn h_any() {
    let n = sym::bound(5, 5);
    let s = sym::any_str("s", "utf8", 0, n);
    common(&s);
}

/// grammar-directed names: several '-', 'nb' inside base / several times, long digit runs
pub fn h_tokens() {
    let nt = sym::bound(3, 3);
    let mut s = String::new();
    let k = sym::choose("ntok", nt + 1);
    let mut i = 0;
    while i < k {
        match sym::choose("tok", 6) {
            0 => s.push('-'),
            1 => {
                // a revision token: "nb" followed by 0..3 symbolic digits (or up to 18 in one variant)
                s.push_str("nb");
                if sym::choose("longrev", 2) == 1 {
                    s.push_str(&sym::any_str("d", "hex:30-39", 18, 18));
                } else {
                    s.push_str(&sym::any_str("d", "hex:30-39", 0, 2));
                }
            }
            2 => s.push_str(&sym::any_str("d", "hex:30-39", 1, 2)),
            3 => s.push('.'),
            4 => s.push_str(&sym::any_str("l", "set:anbx", 1, 1)),
            _ => s.push_str(&sym::any_str("u", "utf8", 1, 1)),
        }
        i += 1;
    }
    common(&s);
}
