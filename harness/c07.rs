//! C07 pkg_summary entries round-trip; the printed form depends only on the current values.
use super::{spec, sym};
use crate::summary::Summary;
use std::str::FromStr;

pub const NAMES: [&str; 23] = [
    "BUILD_DATE", "CATEGORIES", "COMMENT", "CONFLICTS", "DEPENDS", "DESCRIPTION", "FILE_CKSUM", "FILE_NAME",
    "FILE_SIZE", "HOMEPAGE", "LICENSE", "MACHINE_ARCH", "OPSYS", "OS_VERSION", "PKG_OPTIONS", "PKGNAME", "PKGPATH",
    "PKGTOOLS_VERSION", "PREV_PKGPATH", "PROVIDES", "REQUIRES", "SIZE_PKG", "SUPERSEDES",
];
/// 0 = string, 1 = list, 2 = integer
pub const KIND: [u8; 23] = [0, 0, 0, 1, 1, 1, 0, 0, 2, 0, 0, 0, 0, 0, 0, 0, 0, 0, 0, 1, 1, 2, 1];
pub const REQUIRED: [usize; 11] = [0, 1, 2, 5, 11, 12, 13, 15, 16, 17, 21];

pub fn set_s(s: &mut Summary, var: usize, v: &str) {
    match var {
        0 => s.set_build_date(v),
        1 => s.set_categories(v),
        2 => s.set_comment(v),
        6 => s.set_file_cksum(v),
        7 => s.set_file_name(v),
        9 => s.set_homepage(v),
        10 => s.set_license(v),
        11 => s.set_machine_arch(v),
        12 => s.set_opsys(v),
        13 => s.set_os_version(v),
        14 => s.set_pkg_options(v),
        15 => s.set_pkgname(v),
        16 => s.set_pkgpath(v),
        17 => s.set_pkgtools_version(v),
        _ => s.set_prev_pkgpath(v),
    }
}
pub fn set_a(s: &mut Summary, var: usize, v: &[String]) {
    match var {
        3 => s.set_conflicts(v),
        4 => s.set_depends(v),
        5 => s.set_description(v),
        19 => s.set_provides(v),
        20 => s.set_requires(v),
        _ => s.set_supersedes(v),
    }
}
pub fn push_a(s: &mut Summary, var: usize, v: &str) {
    match var {
        3 => s.push_conflicts(v),
        4 => s.push_depends(v),
        5 => s.push_description(v),
        19 => s.push_provides(v),
        20 => s.push_requires(v),
        _ => s.push_supersedes(v),
    }
}
pub fn set_i(s: &mut Summary, var: usize, v: i64) {
    if var == 8 {
        s.set_file_size(v)
    } else {
        s.set_size_pkg(v)
    }
}
pub fn get_s<'a>(s: &'a Summary, var: usize) -> Option<&'a str> {
    match var {
        0 => s.build_date(),
        1 => s.categories(),
        2 => s.comment(),
        6 => s.file_cksum(),
        7 => s.file_name(),
        9 => s.homepage(),
        10 => s.license(),
        11 => s.machine_arch(),
        12 => s.opsys(),
        13 => s.os_version(),
        14 => s.pkg_options(),
        15 => s.pkgname(),
        16 => s.pkgpath(),
        17 => s.pkgtools_version(),
        _ => s.prev_pkgpath(),
    }
}
pub fn get_a<'a>(s: &'a Summary, var: usize) -> Option<&'a [String]> {
    match var {
        3 => s.conflicts(),
        4 => s.depends(),
        5 => s.description(),
        19 => s.provides(),
        20 => s.requires(),
        _ => s.supersedes(),
    }
}
pub fn get_i(s: &Summary, var: usize) -> Option<i64> {
    if var == 8 {
        s.file_size()
    } else {
        s.size_pkg()
    }
}

pub fn same_values(a: &Summary, b: &Summary) -> bool {
    let mut ok = true;
    let mut v = 0;
    while v < 23 {
        match KIND[v] {
            0 => ok = ok & (get_s(a, v) == get_s(b, v)),
            1 => ok = ok & (get_a(a, v) == get_a(b, v)),
            _ => ok = ok & (get_i(a, v) == get_i(b, v)),
        }
        v += 1;
    }
    ok
}

const VAL: &str = "set:a= é";

/// boundary values, or a sign and up to three symbolic digits (built by multiplication, so no
/// 64-bit division reaches the solver)
fn any_size(tag: &str) -> i64 {
    match sym::choose(tag, 5) {
        0 => i64::MIN,
        1 => i64::MAX,
        2 => 0,
        3 => -1,
        _ => {
            let d = sym::any_bytes(tag, "hex:30-39", 1, 3);
            let mut n: i64 = 0;
            for x in d.iter() {
                n = n * 10 + (*x - b'0') as i64;
            }
            if sym::choose(tag, 2) == 1 {
                -n
            } else {
                n
            }
        }
    }
}

/// One entry: all required variables plus variable `extra`; variable `rich` gets the widest values.
pub struct Plan {
    pub strs: Vec<(usize, String)>,
    pub lists: Vec<(usize, Vec<String>)>,
    pub ints: Vec<(usize, i64)>,
}

pub fn plan() -> Plan {
    let rich = sym::choose("rich", 23);
    let mut p = Plan { strs: Vec::new(), lists: Vec::new(), ints: Vec::new() };
    let mut v = 0;
    while v < 23 {
        let mut wanted = v == rich;
        for r in REQUIRED.iter() {
            wanted = wanted | (*r == v);
        }
        if wanted {
            match KIND[v] {
                0 => {
                    let val = if v == rich { sym::any_str("val", VAL, 0, sym::bound(2, 3)) } else { sym::any_str("v", "set:a= ", 1, 1) };
                    p.strs.push((v, val));
                }
                1 => {
                    let mut items = vec![if v == rich { sym::any_str("val", VAL, 0, sym::bound(2, 3)) } else { "x".to_string() }];
                    if v == rich && sym::choose("second-line", 2) == 1 {
                        items.push(sym::any_str("val2", VAL, 0, 1));
                    }
                    p.lists.push((v, items));
                }
                _ => p.ints.push((v, if v == rich { any_size("size") } else { 7 })),
            }
        }
        v += 1;
    }
    p
}

pub fn build(p: &Plan) -> Summary {
    let mut s = Summary::new();
    for (v, x) in p.strs.iter() {
        set_s(&mut s, *v, x);
    }
    for (v, x) in p.lists.iter() {
        set_a(&mut s, *v, x);
    }
    for (v, x) in p.ints.iter() {
        set_i(&mut s, *v, *x);
    }
    s
}

/// the same values reached through a different history: reverse order, overwritten junk first,
/// lists pushed line by line
pub fn build_other_history(p: &Plan) -> Summary {
    let mut s = Summary::new();
    for (v, x) in p.ints.iter().rev() {
        set_i(&mut s, *v, 1);
        set_i(&mut s, *v, *x);
    }
    for (v, x) in p.lists.iter().rev() {
        set_a(&mut s, *v, &["junk".to_string(), "more".to_string()]);
        set_a(&mut s, *v, &x[0..1]);
        let mut i = 1;
        while i < x.len() {
            push_a(&mut s, *v, &x[i]);
            i += 1;
        }
        // ... and once more by shrinking to one line and growing back with a single set
        set_a(&mut s, *v, &x[0..1]);
        set_a(&mut s, *v, &x[..]);
    }
    for (v, x) in p.strs.iter().rev() {
        // the final value first, then junk, then the final value again (which may be the empty string)
        set_s(&mut s, *v, x);
        set_s(&mut s, *v, "junk");
        set_s(&mut s, *v, x);
    }
    s
}

pub fn expected_text(p: &Plan) -> Vec<u8> {
    let mut out: Vec<u8> = Vec::new();
    let mut v = 0;
    while v < 23 {
        for (w, x) in p.strs.iter() {
            if *w == v {
                out.extend_from_slice(NAMES[v].as_bytes());
                out.push(b'=');
                out.extend_from_slice(x.as_bytes());
                out.push(b'\n');
            }
        }
        for (w, x) in p.lists.iter() {
            if *w == v {
                for l in x.iter() {
                    out.extend_from_slice(NAMES[v].as_bytes());
                    out.push(b'=');
                    out.extend_from_slice(l.as_bytes());
                    out.push(b'\n');
                }
            }
        }
        for (w, x) in p.ints.iter() {
            if *w == v {
                out.extend_from_slice(NAMES[v].as_bytes());
                out.push(b'=');
                out.extend_from_slice(x.to_string().as_bytes());
                out.push(b'\n');
            }
        }
        v += 1;
    }
    out
}

pub fn h_roundtrip() {
    let p = plan();
    let s = build(&p);
    sym::check("C07/complete", s.is_completed());
    let text = s.to_string();
    sym::observe_str("text", &text);
    // one VAR=value line per value, variables in the fixed pkg_summary order
    sym::check("C07/canonical-form", spec::bytes_eq(text.as_bytes(), &expected_text(&p)));
    // print -> parse gives the same 23 values
    match Summary::from_str(&text) {
        Ok(back) => {
            sym::cover("parsed-back", true);
            sym::check("C07/print-parse-values", same_values(&s, &back));
            // canonical text -> parse -> print is byte-identical
            sym::check("C07/parse-print-bytes", back.to_string() == text);
        }
        Err(_) => sym::check("C07/print-parse-ok", false),
    }
    // history independence
    let s2 = build_other_history(&p);
    sym::check("C07/history-values", same_values(&s, &s2));
    sym::check("C07/history-text", s2.to_string() == text);
}
