//! C16 pbulk-index output splits into one record per PKGNAME, fields never leaking.
use super::{spec, sym};
use crate::{Depend, PkgName, PkgPath, ScanIndex};
use std::io::{self, BufRead, Read};

pub const KEYS: [&str; 15] = [
    "PKGNAME", "ALL_DEPENDS", "PKG_SKIP_REASON", "PKG_FAIL_REASON", "NO_BIN_ON_FTP", "RESTRICTED", "CATEGORIES",
    "MAINTAINER", "USE_DESTDIR", "BOOTSTRAP_PKG", "USERGROUP_PHASE", "SCAN_DEPENDS", "PBULK_WEIGHT", "MULTI_VERSION",
    "PKG_LOCATION",
];

/// expected record: trimmed value of the last line for each key within the block
pub struct Rec {
    pub vals: Vec<Option<Vec<u8>>>,
}

fn trim(b: &[u8]) -> &[u8] {
    let ws = |c: u8| c == b' ' || c == b'\t' || c == b'\r' || c == 0x0b || c == 0x0c;
    let mut i = 0;
    let mut j = b.len();
    while i < j && ws(b[i]) {
        i += 1;
    }
    while j > i && ws(b[j - 1]) {
        j -= 1;
    }
    &b[i..j]
}

fn key_index(k: &[u8]) -> Option<usize> {
    for (i, n) in KEYS.iter().enumerate() {
        if spec::bytes_eq(n.as_bytes(), k) {
            return Some(i);
        }
    }
    None
}

fn split_ws(b: &[u8]) -> Vec<Vec<u8>> {
    let mut out: Vec<Vec<u8>> = Vec::new();
    let mut cur: Vec<u8> = Vec::new();
    for c in b {
        if *c == b' ' || *c == b'\t' {
            if !cur.is_empty() {
                out.push(cur);
                cur = Vec::new();
            }
        } else {
            cur.push(*c);
        }
    }
    if !cur.is_empty() {
        out.push(cur);
    }
    out
}

/// the statement: one record per `PKGNAME=` line, each built only from its own lines.
/// None = the read must fail as a whole.
pub fn spec_scan(lines: &[Vec<u8>]) -> Option<Vec<Rec>> {
    let mut recs: Vec<Rec> = Vec::new();
    let mut cur: Option<Rec> = None;
    let mut orphan = false;
    for l in lines {
        let t = trim(l);
        if t.is_empty() {
            continue;
        }
        let starts = t.len() >= 8 && &t[0..8] == b"PKGNAME=";
        if starts {
            if let Some(r) = cur.take() {
                recs.push(r);
            }
            if orphan {
                return None; // a block before the first PKGNAME= lacks PKGNAME
            }
            cur = Some(Rec { vals: vec![None; 15] });
        }
        let mut e = 0;
        while e < t.len() && t[e] != b'=' {
            e += 1;
        }
        if e == t.len() {
            // no '=': ignored, but it still belongs to a block
            if cur.is_none() {
                orphan = true;
            }
            continue;
        }
        match cur.as_mut() {
            None => orphan = true,
            Some(r) => {
                if let Some(k) = key_index(trim(&t[0..e])) {
                    r.vals[k] = Some(trim(&t[e + 1..]).to_vec());
                }
            }
        }
    }
    if orphan {
        return None;
    }
    if let Some(r) = cur.take() {
        recs.push(r);
    }
    // typed fields must be valid
    for r in recs.iter() {
        if let Some(v) = &r.vals[1] {
            for item in split_ws(v) {
                if Depend::new(std::str::from_utf8(&item).unwrap_or("\u{0}")).is_err() {
                    return None;
                }
            }
        }
        if let Some(v) = &r.vals[14] {
            if PkgPath::new(std::str::from_utf8(v).unwrap_or("")).is_err() {
                return None;
            }
        }
    }
    Some(recs)
}

fn opt_eq(a: &Option<String>, b: &Option<Vec<u8>>) -> bool {
    match (a, b) {
        (None, None) => true,
        (Some(x), Some(y)) => spec::bytes_eq(x.as_bytes(), y),
        _ => false,
    }
}

fn rec_eq(g: &ScanIndex, w: &Rec) -> bool {
    let name = w.vals[0].clone().unwrap_or_default();
    let mut ok = spec::bytes_eq(g.pkgname.pkgname().as_bytes(), &name);
    ok = ok & opt_eq(&g.pkg_skip_reason, &w.vals[2]);
    ok = ok & opt_eq(&g.pkg_fail_reason, &w.vals[3]);
    ok = ok & opt_eq(&g.no_bin_on_ftp, &w.vals[4]);
    ok = ok & opt_eq(&g.restricted, &w.vals[5]);
    ok = ok & opt_eq(&g.categories, &w.vals[6]);
    ok = ok & opt_eq(&g.maintainer, &w.vals[7]);
    ok = ok & opt_eq(&g.use_destdir, &w.vals[8]);
    ok = ok & opt_eq(&g.bootstrap_pkg, &w.vals[9]);
    ok = ok & opt_eq(&g.usergroup_phase, &w.vals[10]);
    ok = ok & opt_eq(&g.pbulk_weight, &w.vals[12]);
    // lists
    let sd = w.vals[11].as_ref().map(|v| split_ws(v)).unwrap_or_default();
    ok = ok & (g.scan_depends.len() == sd.len());
    if g.scan_depends.len() == sd.len() {
        for k in 0..sd.len() {
            ok = ok & (g.scan_depends[k].to_str().map(|s| s.as_bytes().to_vec()) == Some(sd[k].clone()));
        }
    }
    let mv = w.vals[13].as_ref().map(|v| split_ws(v)).unwrap_or_default();
    ok = ok & (g.multi_version.len() == mv.len());
    if g.multi_version.len() == mv.len() {
        for k in 0..mv.len() {
            ok = ok & spec::bytes_eq(g.multi_version[k].as_bytes(), &mv[k]);
        }
    }
    let ad = w.vals[1].as_ref().map(|v| split_ws(v)).unwrap_or_default();
    ok = ok & (g.all_depends.len() == ad.len());
    if g.all_depends.len() == ad.len() {
        for k in 0..ad.len() {
            let want = Depend::new(std::str::from_utf8(&ad[k]).unwrap());
            ok = ok & match want {
                Ok(d) => g.all_depends[k] == d,
                Err(_) => false,
            };
        }
    }
    ok = ok & match (&g.pkg_location, &w.vals[14]) {
        (None, None) => true,
        (Some(p), Some(v)) => match PkgPath::new(std::str::from_utf8(v).unwrap()) {
            Ok(q) => *p == q,
            Err(_) => false,
        },
        _ => false,
    };
    ok & g.depends.is_empty()
}

fn gen_lines(nl: usize) -> Vec<Vec<u8>> {
    let mut lines: Vec<Vec<u8>> = Vec::new();
    let n = sym::choose("nlines", nl + 1);
    // surrounding blanks: once per text
    let pad = sym::choose("pad", 2) == 1;
    let mut i = 0;
    while i < n {
        let mut l: Vec<u8> = Vec::new();
        match sym::choose("kind", 8) {
            0 => {
                l.extend_from_slice(b"PKGNAME=");
                l.extend_from_slice(&sym::any_bytes("name", "set:a-1= ", 0, sym::bound(1, 2)));
            }
            1 => {
                // scalar key with symbolic value (which key: by position)
                let k = [2usize, 6, 7, 12][i % 4];
                l.extend_from_slice(KEYS[k].as_bytes());
                // blanks on either side of the '=' belong to neither key nor value
                l.extend_from_slice([b"=" as &[u8], b"= \t", b" ="][sym::choose("sep", 3)]);
                l.extend_from_slice(&sym::any_bytes("val", "set:a= :/.", 0, sym::bound(1, 2)));
            }
            2 => {
                l.extend_from_slice(b"ALL_DEPENDS=");
                match sym::choose("deps", 4) {
                    0 => {}
                    1 => l.extend_from_slice(b"p-[0-9]*:../../c/p"),
                    2 => l.extend_from_slice(b"p>=1:../../c/p  q-1:d/q"),
                    _ => l.extend_from_slice(b"p-1:../../c/p bad"),
                }
            }
            3 => {
                l.extend_from_slice(b"PKG_LOCATION=");
                if sym::choose("loc", 2) == 0 {
                    l.extend_from_slice(b"cat/pk");
                } else {
                    l.extend_from_slice(&sym::any_bytes("locv", "set:a/.", 0, sym::bound(2, 3)));
                }
            }
            4 => {
                let k = [11usize, 13][i % 2];
                l.extend_from_slice(KEYS[k].as_bytes());
                l.extend_from_slice(b"= x \ty/z\tw ");
            }
            5 => l.extend_from_slice(b"UNKNOWN_KEY=1"),
            6 => l.extend_from_slice(b"no equals here"),
            _ => l.extend_from_slice(b"  "),
        }
        if pad {
            let mut p = b" ".to_vec();
            p.extend_from_slice(&l);
            p.push(b' ');
            l = p;
        }
        lines.push(l);
        i += 1;
    }
    lines
}

fn join(lines: &[Vec<u8>]) -> Vec<u8> {
    let mut t: Vec<u8> = Vec::new();
    for l in lines {
        t.extend_from_slice(l);
        t.push(b'\n');
    }
    t
}

pub fn h_records() {
    let lines = gen_lines(3);
    let text = join(&lines);
    let got = ScanIndex::from_reader(&text[..]);
    let want = spec_scan(&lines);
    sym::observe_bool("ok", got.is_ok());
    sym::cover("ok-two-records", got.as_ref().map(|v| v.len() >= 2).unwrap_or(false));
    sym::cover("rejected", got.is_err());
    match (got, want) {
        (Ok(g), Some(w)) => {
            sym::observe_usize("n", g.len());
            sym::check("C16/one-record-per-pkgname", g.len() == w.len());
            if g.len() == w.len() {
                let mut ok = true;
                for k in 0..w.len() {
                    ok = ok & rec_eq(&g[k], &w[k]);
                }
                sym::check("C16/fields", ok);
            }
        }
        (Err(_), None) => sym::check("C16/fails-as-a-whole", true),
        (Ok(_), None) => sym::check("C16/should-fail", false),
        (Err(_), Some(_)) => sym::check("C16/should-succeed", false),
    }
}

/// A BufRead whose k-th `fill_buf` fails; the read must fail as a whole.
pub struct Faulty<'a> {
    pub data: &'a [u8],
    pub pos: usize,
    pub calls: &'a std::cell::Cell<usize>,
    pub fail_at: usize,
    pub chunk: usize,
}
impl<'a> Read for Faulty<'a> {
    fn read(&mut self, buf: &mut [u8]) -> io::Result<usize> {
        let n = {
            let av = self.fill_buf()?;
            let n = if av.len() < buf.len() { av.len() } else { buf.len() };
            buf[..n].copy_from_slice(&av[..n]);
            n
        };
        self.consume(n);
        Ok(n)
    }
}
impl<'a> BufRead for Faulty<'a> {
    fn fill_buf(&mut self) -> io::Result<&[u8]> {
        self.calls.set(self.calls.get() + 1);
        if self.calls.get() == self.fail_at {
            return Err(io::Error::new(io::ErrorKind::Other, "injected"));
        }
        let end = if self.pos + self.chunk < self.data.len() { self.pos + self.chunk } else { self.data.len() };
        Ok(&self.data[self.pos..end])
    }
    fn consume(&mut self, n: usize) {
        self.pos += n;
    }
}

pub fn h_io_error() {
    let text = b"PKGNAME=a-1\nCATEGORIES=x\nPKGNAME=b-2\nMAINTAINER=m\n";
    let chunk = 1 + sym::choose("chunk", 13);
    let fail_at = 1 + sym::choose("fail_at", 14);
    let calls = std::cell::Cell::new(0);
    let r = Faulty { data: text, pos: 0, calls: &calls, fail_at, chunk: chunk * 4 };
    let got = ScanIndex::from_reader(r);
    // the injected error was reached iff the reader was asked at least fail_at times
    let reached = calls.get() >= fail_at;
    sym::cover("error-injected", reached);
    sym::cover("no-error", !reached);
    if reached {
        sym::check("C16/io-error-fails-whole-read", got.is_err());
    } else {
        sym::check("C16/clean-read", got.map(|v| v.len() == 2).unwrap_or(false));
    }
}
