//! C19 PKGPATH accepts only category/package forms; both spellings give one value; Depend.
use super::{spec, sym};
use crate::{Depend, Pattern, PkgPath};
use std::path::Path;

/// component-wise reading of a path string: None = not a pkgpath, Some((cat, pkg))
pub fn spec_pkgpath(s: &[u8]) -> Option<(Vec<u8>, Vec<u8>)> {
    // components: split at '/', empty segments dropped, '.' dropped unless it is the first
    // segment of a relative path; a leading '/' is a root component
    let mut comps: Vec<Vec<u8>> = Vec::new();
    let mut root = false;
    let mut start = 0;
    let mut i = 0;
    let mut first = true;
    while i <= s.len() {
        if i == s.len() || s[i] == b'/' {
            let seg = &s[start..i];
            if seg.is_empty() {
                if i == 0 && s.len() > 0 {
                    root = true;
                }
            } else if seg == b"." && !(first && !root) {
                // ignored
            } else {
                comps.push(seg.to_vec());
            }
            if !seg.is_empty() {
                first = false;
            }
            start = i + 1;
        }
        i += 1;
    }
    if root {
        return None;
    }
    let ordinary = |c: &Vec<u8>| !(c == b"." || c == b"..");
    if comps.len() == 2 && ordinary(&comps[0]) && ordinary(&comps[1]) {
        return Some((comps[0].clone(), comps[1].clone()));
    }
    if comps.len() == 4 && comps[0] == b".." && comps[1] == b".." && ordinary(&comps[2]) && ordinary(&comps[3]) {
        return Some((comps[2].clone(), comps[3].clone()));
    }
    None
}

fn check_path(s: &str) {
    let got = PkgPath::new(s);
    let want = spec_pkgpath(s.as_bytes());
    sym::observe_bool("ok", got.is_ok());
    sym::cover("accepted", got.is_ok());
    sym::cover("rejected", got.is_err());
    sym::check("C19/accept-iff-category-package", got.is_ok() == want.is_some());
    if let (Ok(p), Some((cat, pkg))) = (got, want) {
        let mut short = cat.clone();
        short.push(b'/');
        short.extend_from_slice(&pkg);
        let mut full = b"../../".to_vec();
        full.extend_from_slice(&short);
        let short_s = String::from_utf8(short).unwrap();
        let full_s = String::from_utf8(full).unwrap();
        sym::check("C19/short-path", p.as_path() == Path::new(&short_s));
        sym::check("C19/full-path", p.as_full_path() == Path::new(&full_s));
        // both spellings give one value
        let a = PkgPath::new(&short_s);
        let b = PkgPath::new(&full_s);
        match (a, b) {
            (Ok(a), Ok(b)) => {
                sym::check("C19/spellings-equal", (a == b) & (a == p));
            }
            _ => sym::check("C19/spellings-parse", false),
        }
        // re-parsing either accessor's output gives an equal value
        let r1 = p.as_path().to_str().map(PkgPath::new);
        let r2 = p.as_full_path().to_str().map(PkgPath::new);
        match (r1, r2) {
            (Some(Ok(r1)), Some(Ok(r2))) => sym::check("C19/reparse-equal", (r1 == p) & (r2 == p)),
            _ => sym::check("C19/reparse-ok", false),
        }
    }
}

pub fn h_pkgpath_any() {
    let s = sym::any_str("s", "set:./ab", 0, sym::bound(6, 8));
    check_path(&s);
}

/// up to six segments from {.., ., name, empty} with optional leading '/'
pub fn h_pkgpath_segments() {
    let mut s = String::new();
    if sym::choose("lead", 2) == 1 {
        s.push('/');
    }
    let n = sym::choose("nseg", sym::bound(4, 6) + 1);
    let mut i = 0;
    while i < n {
        if i > 0 {
            s.push('/');
        }
        match sym::choose("seg", 6) {
            0 => s.push_str(".."),
            1 => s.push('.'),
            2 => s.push_str("a"),
            3 => s.push_str(".a"),
            4 => s.push_str("é."),
            _ => {}
        }
        i += 1;
    }
    check_path(&s);
}

pub fn h_depend() {
    let pats = ["pk>=1", "pk-[0-9]*", "pk", "{a,b}-1", "pk>1>2", "pk-[", "{a"];
    let paths = ["cat/pk", "../../cat/pk", "cat", "/cat/pk", "a/b/c"];
    let ncolon = sym::choose("ncolon", 4);
    let pi = sym::choose("pat", pats.len());
    let qi = sym::choose("path", paths.len());
    let mut x = String::new();
    // blanks around the whole argument belong to the halves (they are not trimmed away)
    let (pre, post) = [("", ""), (" ", ""), ("", " "), ("", "\t")][sym::choose("blank", 4)];
    x.push_str(pre);
    x.push_str(pats[pi]);
    let mut k = 0;
    while k < ncolon {
        x.push(':');
        if k == 0 {
            x.push_str(paths[qi]);
        } else {
            x.push_str(&sym::any_str("extra", "set:a/:", 0, 1));
        }
        k += 1;
    }
    x.push_str(post);
    let got = Depend::new(&x);
    // split on every ':'
    let mut parts: Vec<&str> = Vec::new();
    let b = x.as_bytes();
    let mut start = 0;
    let mut i = 0;
    while i <= b.len() {
        if i == b.len() || b[i] == b':' {
            parts.push(&x[start..i]);
            start = i + 1;
        }
        i += 1;
    }
    let want = if parts.len() == 2 {
        match (Pattern::new(parts[0]), PkgPath::new(parts[1])) {
            (Ok(p), Ok(q)) => Some((p, q)),
            _ => None,
        }
    } else {
        None
    };
    sym::cover("accepted", got.is_ok());
    sym::cover("rejected", got.is_err());
    sym::check("C19/depend-accept-iff", got.is_ok() == want.is_some());
    if let (Ok(d), Some((p, q))) = (got, want) {
        sym::check("C19/depend-parts", (d.pattern() == &p) & (d.pkgpath() == &q));
    }
}
