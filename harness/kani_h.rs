//! Second engine (Kani / CBMC) for the comparator kernel: the same order laws as c03::h_laws2 /
//! h_trans and the reference comparison of c01::h_cmp, for concrete vector lengths and arbitrary
//! i64 components.  Compiled only under `cfg(kani)`.
use super::spec;
use crate::dewey::{dewey_cmp, verif_in, DeweyOp, DeweyVersion};

fn dv<const N: usize>() -> DeweyVersion {
    let a: [i64; N] = kani::any();
    verif_in::make(a.to_vec(), kani::any())
}

fn laws(a: &DeweyVersion, b: &DeweyVersion) {
    let gt = dewey_cmp(a, &DeweyOp::GT, b);
    let ge = dewey_cmp(a, &DeweyOp::GE, b);
    let lt = dewey_cmp(a, &DeweyOp::LT, b);
    let le = dewey_cmp(a, &DeweyOp::LE, b);
    assert!(gt != le);
    assert!(lt != ge);
    assert!(!(gt && lt));
    assert!((gt as u8) + (lt as u8) + ((le && ge) as u8) == 1);
    assert!(gt == dewey_cmp(b, &DeweyOp::LT, a));
    assert!(lt == dewey_cmp(b, &DeweyOp::GT, a));
    assert!(ge == dewey_cmp(b, &DeweyOp::LE, a));
    assert!(le == dewey_cmp(b, &DeweyOp::GE, a));
    // against the reference comparison
    let (av, ar) = verif_in::parts(a);
    let (bv, br) = verif_in::parts(b);
    let ord = spec::cmp_ver(av, ar, bv, br);
    assert!(gt == (ord > 0));
    assert!(lt == (ord < 0));
    kani::cover!(gt);
    kani::cover!(lt);
}

macro_rules! pair {
    ($name:ident, $n:expr, $m:expr) => {
        #[kani::proof]
        #[kani::unwind(6)]
        fn $name() {
            let a = dv::<$n>();
            let b = dv::<$m>();
            laws(&a, &b);
            std::mem::forget(a);
            std::mem::forget(b);
        }
    };
}
pair!(k_laws_0_0, 0, 0);
pair!(k_laws_0_2, 0, 2);
pair!(k_laws_1_1, 1, 1);
pair!(k_laws_1_3, 1, 3);
pair!(k_laws_2_2, 2, 2);
pair!(k_laws_2_3, 2, 3);
pair!(k_laws_3_1, 3, 1);
pair!(k_laws_3_3, 3, 3);
pair!(k_laws_4_2, 4, 2);

macro_rules! triple {
    ($name:ident, $n:expr, $m:expr, $k:expr) => {
        #[kani::proof]
        #[kani::unwind(6)]
        fn $name() {
            let a = dv::<$n>();
            let b = dv::<$m>();
            let c = dv::<$k>();
            if dewey_cmp(&a, &DeweyOp::LE, &b) && dewey_cmp(&b, &DeweyOp::LE, &c) {
                assert!(dewey_cmp(&a, &DeweyOp::LE, &c));
            }
            assert!(dewey_cmp(&a, &DeweyOp::LE, &a) && dewey_cmp(&a, &DeweyOp::GE, &a));
            std::mem::forget(a);
            std::mem::forget(b);
            std::mem::forget(c);
        }
    };
}
triple!(k_trans_2_3_1, 2, 3, 1);
triple!(k_trans_1_2_2, 1, 2, 2);
triple!(k_trans_3_1_2, 3, 1, 2);
triple!(k_trans_2_2_2, 2, 2, 2);
