//! Reference models written from the property statements (and pkg_install's dewey.c where the
//! statement cites it).  Deliberately byte-indexed and free of the std helpers the
//! implementation uses.

/// A tokenised version: components and package revision.
pub struct Ver {
    pub comps: Vec<i64>,
    pub rev: i64,
    /// the text contains an ASCII letter that is encoded as (0, rank)
    pub has_letter: bool,
    /// the text contains `nb` spelt with an upper-case letter at a token position; the property
    /// statement is silent on it (DESIGN C01) so nothing is asserted for such strings
    pub nb_case: bool,
}

/// ASCII lower-casing without a branch (so that symbolic case bits do not fork the exploration)
fn lower(b: u8) -> u8 {
    let up = (b >= b'A') & (b <= b'Z');
    b + 32 * (up as u8)
}

/// case-insensitive "does `s[i..]` start with the lower-case word `w`"
pub fn has_word_ci(s: &[u8], i: usize, w: &[u8]) -> bool {
    if i + w.len() > s.len() {
        return false;
    }
    let mut k = 0;
    let mut ok = true;
    while k < w.len() {
        ok = ok & (lower(s[i + k]) == w[k]);
        k += 1;
    }
    ok
}

fn is_digit(b: u8) -> bool {
    b >= b'0' && b <= b'9'
}

/// C01: digit run = value; '.', '_', 'pl' = 0; alpha/beta/rc|pre = -3/-2/-1; other ASCII letter =
/// 0 then its alphabet rank; nb<N> = revision; letters and modifiers case-insensitive; everything
/// else ignored.  `letter_code` = encode a letter by its ASCII code instead of its rank (the
/// documented deviation `letter-weight`).
pub fn tokenise(s: &[u8], letter_code: bool) -> Ver {
    let mut v = Ver { comps: Vec::new(), rev: 0, has_letter: false, nb_case: false };
    let mut i = 0;
    while i < s.len() {
        let b = s[i];
        if is_digit(b) {
            let mut n: i64 = 0;
            while i < s.len() && is_digit(s[i]) {
                n = n * 10 + (s[i] - b'0') as i64;
                i += 1;
            }
            v.comps.push(n);
            continue;
        }
        if b == b'.' || b == b'_' {
            v.comps.push(0);
            i += 1;
            continue;
        }
        if has_word_ci(s, i, b"nb") {
            if !(s[i] == b'n' && s[i + 1] == b'b') {
                v.nb_case = true;
            }
            i += 2;
            let mut n: i64 = 0;
            while i < s.len() && is_digit(s[i]) {
                n = n * 10 + (s[i] - b'0') as i64;
                i += 1;
            }
            v.rev = n;
            continue;
        }
        if has_word_ci(s, i, b"alpha") {
            v.comps.push(-3);
            i += 5;
            continue;
        }
        if has_word_ci(s, i, b"beta") {
            v.comps.push(-2);
            i += 4;
            continue;
        }
        if has_word_ci(s, i, b"pre") {
            v.comps.push(-1);
            i += 3;
            continue;
        }
        if has_word_ci(s, i, b"rc") {
            v.comps.push(-1);
            i += 2;
            continue;
        }
        if has_word_ci(s, i, b"pl") {
            v.comps.push(0);
            i += 2;
            continue;
        }
        let l = lower(b);
        if l >= b'a' && l <= b'z' {
            v.has_letter = true;
            v.comps.push(0);
            if letter_code {
                v.comps.push(b as i64);
            } else {
                v.comps.push((l - b'a') as i64 + 1);
            }
        }
        i += 1;
    }
    v
}

/// -1 / 0 / 1: components position by position, missing = 0; revision only on a full tie.
pub fn cmp_ver(ac: &[i64], ar: i64, bc: &[i64], br: i64) -> i32 {
    let n = if ac.len() > bc.len() { ac.len() } else { bc.len() };
    let mut i = 0;
    while i < n {
        let x = if i < ac.len() { ac[i] } else { 0 };
        let y = if i < bc.len() { bc[i] } else { 0 };
        if x < y {
            return -1;
        }
        if x > y {
            return 1;
        }
        i += 1;
    }
    if ar < br {
        -1
    } else if ar > br {
        1
    } else {
        0
    }
}

/// operator index: 0 `<=`, 1 `<`, 2 `>=`, 3 `>` (the order of the crate's DeweyOp)
pub fn op_holds(op: usize, ord: i32) -> bool {
    match op {
        0 => ord <= 0,
        1 => ord < 0,
        2 => ord >= 0,
        _ => ord > 0,
    }
}

pub fn vec_eq(a: &[i64], b: &[i64]) -> bool {
    if a.len() != b.len() {
        return false;
    }
    let mut ok = true;
    let mut i = 0;
    while i < a.len() {
        ok = ok & (a[i] == b[i]);
        i += 1;
    }
    ok
}

/// C02: scan for `<` / `>` (optionally followed by `=`); returns the operators as
/// (position, end-of-operator, op index) or None when the count/order rule is violated.
pub fn parse_dewey(p: &[u8]) -> Option<Vec<(usize, usize, usize)>> {
    let mut ops: Vec<(usize, usize, usize)> = Vec::new();
    let mut i = 0;
    while i < p.len() {
        let b = p[i];
        if b == b'<' || b == b'>' {
            let eq = i + 1 < p.len() && p[i + 1] == b'=';
            let op = if b == b'<' {
                if eq { 0 } else { 1 }
            } else if eq {
                2
            } else {
                3
            };
            ops.push((i, if eq { i + 2 } else { i + 1 }, op));
        }
        i += 1;
    }
    if ops.len() == 1 {
        return Some(ops);
    }
    if ops.len() == 2 && ops[0].2 >= 2 && ops[1].2 <= 1 {
        return Some(ops);
    }
    None
}

/// index of the last `-` in `s`
pub fn last_dash(s: &[u8]) -> Option<usize> {
    let mut i = s.len();
    while i > 0 {
        i -= 1;
        if s[i] == b'-' {
            return Some(i);
        }
    }
    None
}

pub fn bytes_eq(a: &[u8], b: &[u8]) -> bool {
    if a.len() != b.len() {
        return false;
    }
    let mut ok = true;
    let mut i = 0;
    while i < a.len() {
        ok = ok & (a[i] == b[i]);
        i += 1;
    }
    ok
}

// ---------------------------------------------------------------------------------- C04
/// braces properly nested
pub fn balanced(p: &[u8]) -> bool {
    let mut depth: usize = 0;
    let mut i = 0;
    while i < p.len() {
        if p[i] == b'{' {
            depth += 1;
        } else if p[i] == b'}' {
            if depth == 0 {
                return false;
            }
            depth -= 1;
        }
        i += 1;
    }
    depth == 0
}

/// csh-style expansion of a pattern with balanced braces: first `{`, its matching `}`, commas at
/// that group's own depth separate the alternatives (empty ones allowed); recurse on each result.
pub fn expand(p: &[u8]) -> Vec<Vec<u8>> {
    let mut i = 0;
    while i < p.len() && p[i] != b'{' {
        i += 1;
    }
    if i == p.len() {
        return vec![p.to_vec()];
    }
    // matching close and top-level commas
    let mut depth = 0usize;
    let mut j = i;
    let mut cuts: Vec<usize> = vec![i];
    loop {
        if p[j] == b'{' {
            depth += 1;
        } else if p[j] == b'}' {
            depth -= 1;
            if depth == 0 {
                break;
            }
        } else if p[j] == b',' && depth == 1 {
            cuts.push(j);
        }
        j += 1;
    }
    cuts.push(j);
    let mut out: Vec<Vec<u8>> = Vec::new();
    let mut k = 0;
    while k + 1 < cuts.len() {
        let mut s: Vec<u8> = p[0..i].to_vec();
        s.extend_from_slice(&p[cuts[k] + 1..cuts[k + 1]]);
        s.extend_from_slice(&p[j + 1..]);
        for e in expand(&s) {
            out.push(e);
        }
        k += 1;
    }
    out
}

// ---------------------------------------------------------------------------------- C05
/// One element of a compiled shell glob.
pub enum G {
    Lit(char),
    One,
    Star,
    Set(bool, Vec<(char, char)>), // negated?, inclusive ranges (single = (c, c))
}

/// Parse the shell-glob subset pkgsrc uses.  None = malformed (a `[` that is not closed by a
/// `]` after at least one set character).  A `]` outside a set is a literal.
pub fn glob_parse(p: &[char]) -> Option<Vec<G>> {
    let mut out = Vec::new();
    let mut i = 0;
    while i < p.len() {
        let c = p[i];
        if c == '?' {
            out.push(G::One);
            i += 1;
        } else if c == '*' {
            out.push(G::Star);
            i += 1;
        } else if c == '[' {
            let mut j = i + 1;
            let neg = j < p.len() && p[j] == '!';
            if neg {
                j += 1;
            }
            // the first set character may be anything (even ']'); find the closing ']' after it
            let start = j;
            let mut end = start + 1;
            while end < p.len() && p[end] != ']' {
                end += 1;
            }
            if start >= p.len() || end >= p.len() {
                return None;
            }
            let mut rs = Vec::new();
            let mut k = start;
            while k < end {
                if k + 2 < end && p[k + 1] == '-' {
                    rs.push((p[k], p[k + 2]));
                    k += 3;
                } else {
                    rs.push((p[k], p[k]));
                    k += 1;
                }
            }
            out.push(G::Set(neg, rs));
            i = end + 1;
        } else {
            out.push(G::Lit(c));
            i += 1;
        }
    }
    Some(out)
}

/// whole-string, case-sensitive match
pub fn glob_match(g: &[G], gi: usize, n: &[char], ni: usize) -> bool {
    if gi == g.len() {
        return ni == n.len();
    }
    match &g[gi] {
        G::Star => {
            let mut k = ni;
            loop {
                if glob_match(g, gi + 1, n, k) {
                    return true;
                }
                if k == n.len() {
                    return false;
                }
                k += 1;
            }
        }
        G::One => ni < n.len() && glob_match(g, gi + 1, n, ni + 1),
        G::Lit(c) => ni < n.len() && n[ni] == *c && glob_match(g, gi + 1, n, ni + 1),
        G::Set(neg, rs) => {
            if ni >= n.len() {
                return false;
            }
            let mut inside = false;
            for (lo, hi) in rs {
                inside = inside | ((n[ni] >= *lo) & (n[ni] <= *hi));
            }
            (inside != *neg) && glob_match(g, gi + 1, n, ni + 1)
        }
    }
}

pub fn chars_of(s: &str) -> Vec<char> {
    let b = s.as_bytes();
    let mut out = Vec::new();
    let mut i = 0;
    while i < b.len() {
        let x = b[i] as u32;
        if x < 0x80 {
            out.push(x);
            i += 1;
        } else if x < 0xE0 {
            out.push(((x & 0x1F) << 6) | (b[i + 1] as u32 & 0x3F));
            i += 2;
        } else if x < 0xF0 {
            out.push(((x & 0x0F) << 12) | ((b[i + 1] as u32 & 0x3F) << 6) | (b[i + 2] as u32 & 0x3F));
            i += 3;
        } else {
            out.push(((x & 0x07) << 18) | ((b[i + 1] as u32 & 0x3F) << 12) | ((b[i + 2] as u32 & 0x3F) << 6) | (b[i + 3] as u32 & 0x3F));
            i += 4;
        }
    }
    out.into_iter().map(|u| char::from_u32(u).unwrap_or('?')).collect()
}
