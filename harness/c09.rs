//! C09 Streamed pkg_summary parsing is independent of how the bytes are chunked.
use super::c07::{same_values, NAMES, REQUIRED, KIND};
use super::{spec, sym};
use crate::summary::{Summary, SummaryStream};
use std::io::{ErrorKind, Write};
use std::str::FromStr;

/// a minimal well-formed entry; `val` goes into COMMENT
pub fn entry(val: &str, tag: u8) -> Vec<u8> {
    let mut t: Vec<u8> = Vec::new();
    for q in REQUIRED.iter() {
        t.extend_from_slice(NAMES[*q].as_bytes());
        t.push(b'=');
        if *q == 2 {
            t.extend_from_slice(val.as_bytes());
        } else if KIND[*q] == 2 {
            t.push(b'1');
        } else {
            t.push(tag);
        }
        t.push(b'\n');
    }
    t.push(b'\n');
    t
}

fn one_shot(stream: &[u8]) -> Option<SummaryStream> {
    let mut s = SummaryStream::new();
    match s.write(stream) {
        Ok(n) if n == stream.len() => Some(s),
        _ => None,
    }
}

fn same_entries(a: &SummaryStream, b: &SummaryStream) -> bool {
    let (x, y) = (a.entries(), b.entries());
    if x.len() != y.len() {
        return false;
    }
    let mut ok = true;
    for k in 0..x.len() {
        ok = ok & same_values(&x[k], &y[k]);
    }
    ok
}

fn well_formed_stream() -> Vec<u8> {
    let n = 1 + sym::choose("nentries", sym::bound(2, 3));
    let mut st: Vec<u8> = Vec::new();
    let mut i = 0;
    while i < n {
        // first entry: one arbitrary character (1-4 bytes); later entries: a fixed 2-byte character
        let val = if i == 0 { sym::any_str("val", "utf8-nonl", 0, 1) } else { "\u{e9}".to_string() };
        st.extend_from_slice(&entry(&val, b'a' + i as u8));
        i += 1;
    }
    st
}

fn feed(s: &mut SummaryStream, chunk: &[u8]) -> bool {
    match s.write(chunk) {
        Ok(n) => n == chunk.len(),
        Err(_) => false,
    }
}

/// every single cut position (a second cut, even restricted to the next four bytes, did not finish in 10 minutes
/// on 16 cores and is switched off in both tiers; h_chunks covers many cuts per stream)
pub fn h_cuts() {
    let st = well_formed_stream();
    let whole = match one_shot(&st) {
        Some(w) => w,
        None => {
            sym::check("C09/one-shot-accepted", false);
            return;
        }
    };
    let c1 = sym::choose("cut1", st.len() + 1);
    let rest = st.len() - c1;
    let c2 = if sym::bound(0, 0) == 1 { c1 + sym::choose("cut2", if rest < 4 { rest + 1 } else { 5 }) } else { st.len() };
    let mut s = SummaryStream::new();
    let ok = feed(&mut s, &st[0..c1]) && feed(&mut s, &st[c1..c2]) && feed(&mut s, &st[c2..]);
    sym::observe_bool("all-writes-ok", ok);
    sym::cover("cut-inside-char", c1 > 0 && c1 < st.len() && (st[c1] & 0xC0) == 0x80);
    sym::check("C09/every-write-succeeds", ok);
    if ok {
        sym::check("C09/entries-equal-one-shot", same_entries(&s, &whole));
        sym::check("C09/print-reproduces-stream", spec::bytes_eq(s.to_string().as_bytes(), &st));
    }
}

/// fixed chunk sizes including byte-at-a-time
pub fn h_chunks() {
    let val = sym::any_str("val", "utf8-nonl", 0, 2);
    let mut st = entry(&val, b'a');
    if sym::choose("two", 2) == 1 {
        st.extend_from_slice(&entry("x", b'b'));
    }
    let size = 1 + sym::choose("size", sym::bound(3, 8));
    let mut s = SummaryStream::new();
    let mut ok = true;
    let mut i = 0;
    while i < st.len() {
        let j = if i + size < st.len() { i + size } else { st.len() };
        ok = ok && feed(&mut s, &st[i..j]);
        i = j;
    }
    sym::check("C09/chunks-every-write-succeeds", ok);
    if ok {
        sym::cover("chunked", true);
        sym::check("C09/chunks-print-reproduces-stream", spec::bytes_eq(s.to_string().as_bytes(), &st));
    }
}

/// a malformed entry at position j: some write no later than the completing one fails with
/// InvalidData and the entries collected so far are the well-formed prefix
pub fn h_malformed() {
    let n = 1 + sym::choose("nentries", 3);
    let bad = sym::choose("bad", n);
    let mut st: Vec<u8> = Vec::new();
    let mut ends: Vec<usize> = Vec::new();
    let mut i = 0;
    while i < n {
        if i == bad {
            match sym::choose("fault", 3) {
                0 => st.extend_from_slice(b"COMMENT=x\n\n"), // incomplete
                1 => st.extend_from_slice(b"garbage line\n\n"),
                _ => {
                    let mut e = entry("x", b'a');
                    e.truncate(e.len() - 1);
                    e.extend_from_slice(b"BOGUS=1\n\n");
                    st.extend_from_slice(&e);
                }
            }
        } else {
            // a two-byte character in the good entries: the cut may fall inside it after a malformed entry
            st.extend_from_slice(&entry("\u{e9}", b'a' + i as u8));
        }
        ends.push(st.len());
        i += 1;
    }
    let c1 = sym::choose("cut1", st.len() + 1);
    let mut s = SummaryStream::new();
    let chunks: [&[u8]; 2] = [&st[0..c1], &st[c1..]];
    let mut failed_at: Option<usize> = None;
    let mut invalid_data = false;
    let mut fed = 0;
    for (k, c) in chunks.iter().enumerate() {
        match s.write(c) {
            Ok(_) => {}
            Err(e) => {
                failed_at = Some(k);
                invalid_data = e.kind() == ErrorKind::InvalidData;
                break;
            }
        }
        fed += c.len();
    }
    // the write that completes the bad entry
    let completing = if ends[bad] <= c1 { 0 } else { 1 };
    sym::cover("failed", failed_at.is_some());
    match failed_at {
        None => sym::check("C09/malformed-entry-rejected", false),
        Some(k) => {
            sym::check("C09/fails-no-later-than-completing-write", k <= completing);
            sym::check("C09/invalid-data", invalid_data);
            // collected so far = well-formed entries preceding the bad one
            sym::check("C09/prefix-collected", s.entries().len() == bad);
        }
    }
    let _ = fed;
}
