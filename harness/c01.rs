//! C01 Version comparison follows pkg_install's dewey ordering.
use super::{spec, sym};
use crate::dewey::{verif_in, DeweyVersion};

/// Tokeniser: real `DeweyVersion::new` against `spec::tokenise` for every ASCII string.
pub fn h_tokeniser() {
    let s = sym::any_str("s", "ascii", 0, sym::bound(4, 5));
    let got = DeweyVersion::new(&s);
    let (gv, gr) = verif_in::parts(&got);
    sym::observe_usize("ncomps", gv.len());
    sym::observe_i64("rev", gr);
    let want = spec::tokenise(s.as_bytes(), false);
    let same = spec::vec_eq(gv, &want.comps) & (gr == want.rev);
    sym::cover("tokenised-something", gv.len() > 0);
    if want.has_letter && sym::kf_listed("letter-weight") {
        let dev = spec::tokenise(s.as_bytes(), true);
        let same_dev = spec::vec_eq(gv, &dev.comps) & (gr == dev.rev);
        sym::known_finding("letter-weight", !same & same_dev);
        sym::check("C01/tokeniser", want.nb_case | same | same_dev);
    } else {
        sym::check("C01/tokeniser", want.nb_case | same);
    }
}

fn any_vec(tag: &str, maxlen: usize) -> Vec<i64> {
    let n = sym::choose(tag, maxlen + 1);
    let mut v = Vec::new();
    let mut i = 0;
    while i < n {
        v.push(sym::any_i64(tag));
        i += 1;
    }
    v
}

pub fn op_of(i: usize) -> crate::dewey::DeweyOp {
    use crate::dewey::DeweyOp;
    match i {
        0 => DeweyOp::LE,
        1 => DeweyOp::LT,
        2 => DeweyOp::GE,
        _ => DeweyOp::GT,
    }
}

pub fn op_str(i: usize) -> &'static str {
    match i {
        0 => "<=",
        1 => "<",
        2 => ">=",
        _ => ">",
    }
}

/// Comparator: real `dewey_cmp` against zero-padded position-wise comparison, then revision,
/// for arbitrary i64 component vectors and all four operators.
pub fn h_cmp() {
    let l = sym::bound(4, 6);
    let a = any_vec("a", l);
    let b = any_vec("b", l);
    let ar = sym::any_i64("ar");
    let br = sym::any_i64("br");
    let op = sym::choose("op", 4);
    let want = spec::op_holds(op, spec::cmp_ver(&a, ar, &b, br));
    let da = verif_in::make(a, ar);
    let db = verif_in::make(b, br);
    let got = crate::dewey::dewey_cmp(&da, &op_of(op), &db);
    sym::observe_bool("verdict", got);
    sym::cover("true-verdict", got);
    sym::cover("false-verdict", !got);
    sym::check("C01/cmp", got == want);
}

/// Glue: Pattern(BASE op V).matches(BASE-W) equals the spec verdict on the spec tokenisation.
pub fn h_glue() {
    let v = sym::any_str("v", "ascii", 0, 2);
    let w = sym::any_str("w", "ascii", 0, sym::bound(1, 2));
    let op = sym::choose("op", 4);
    // '<' '>' '-' '{' '}' would change the pattern structure; they are C02/C04 territory
    let mut clean = true;
    for b in v.as_bytes().iter().chain(w.as_bytes().iter()) {
        clean = clean & (*b != b'<') & (*b != b'>') & (*b != b'-') & (*b != b'{') & (*b != b'}');
    }
    sym::assume(clean & (v.as_bytes().is_empty() || v.as_bytes()[0] != b'='));
    let pat = format!("pk{}{}", op_str(op), v);
    let pkg = format!("pk-{}", w);
    let p = crate::Pattern::new(&pat);
    sym::check("C01/glue-compiles", p.is_ok());
    let p = match p {
        Ok(p) => p,
        Err(_) => return,
    };
    let got = p.matches(&pkg);
    sym::observe_bool("verdict", got);
    let sv = spec::tokenise(v.as_bytes(), false);
    let sw = spec::tokenise(w.as_bytes(), false);
    let want = spec::op_holds(op, spec::cmp_ver(&sw.comps, sw.rev, &sv.comps, sv.rev));
    let dubious = sv.nb_case | sw.nb_case;
    if (sv.has_letter | sw.has_letter) && sym::kf_listed("letter-weight") {
        let dv = spec::tokenise(v.as_bytes(), true);
        let dw = spec::tokenise(w.as_bytes(), true);
        let dev = spec::op_holds(op, spec::cmp_ver(&dw.comps, dw.rev, &dv.comps, dv.rev));
        sym::known_finding("letter-weight", (got != want) & (got == dev));
        sym::check("C01/glue", dubious | (got == want) | (got == dev));
    } else {
        sym::check("C01/glue", dubious | (got == want));
    }
    // best_match uses the same order
    let pkg2 = format!("pk-{}", v);
    let any = crate::Pattern::new("pk-*").unwrap();
    let best = any.best_match(&pkg, &pkg2);
    let ord = spec::cmp_ver(&sw.comps, sw.rev, &sv.comps, sv.rev);
    let want_best: &str = if ord > 0 {
        &pkg
    } else if ord < 0 {
        &pkg2
    } else if pkg.as_bytes() < pkg2.as_bytes() {
        &pkg
    } else {
        &pkg2
    };
    let okb = match best {
        Some(b) => b == want_best,
        None => false,
    };
    sym::check("C01/best", dubious | sv.has_letter | sw.has_letter | okb);
}

/// Grammar-directed versions (reaches `1.0alpha1nb17`-sized strings): up to 3 (quick) / 4
/// (thorough) tokens, each a digit run (short, or 18 digits: the property's limit), a separator, a
/// modifier in a symbolic upper/lower-case spelling, `nb` + digit, one symbolic letter, one other
/// ASCII byte, or one two-byte character.
pub fn h_token_strings() {
    let n = sym::choose("ntok", sym::bound(3, 4) + 1);
    let mut s = String::new();
    let mut i = 0;
    // digit runs of more than 18 digits are outside the property: two digit tokens are never adjacent
    // (revision digits count as a digit token too)
    let mut prev_digit = false;
    while i < n {
        let t = sym::choose("tok", 7);
        if prev_digit && t == 0 {
            i += 1;
            continue;
        }
        prev_digit = t == 0 || t == 3;
        match t {
            0 => {
                if sym::choose("long", 2) == 1 {
                    s.push_str("12345678901234567"); // 17 + 1 symbolic digit = 18
                }
                s.push_str(&sym::any_str("d", "hex:30-39", 1, 1));
            }
            1 => s.push_str(&sym::any_str("sep", "set:._", 1, 1)),
            2 => {
                // a modifier word, each letter in symbolic case
                let w: &[u8] = match sym::choose("mod", 5) {
                    0 => b"alpha",
                    1 => b"beta",
                    2 => b"rc",
                    3 => b"pre",
                    _ => b"pl",
                };
                let upper = sym::any_u8("case");
                let mut k = 0;
                while k < w.len() {
                    // bit k of `upper` selects the case of letter k (no fork: arithmetic on the byte)
                    let bit = (upper >> k) & 1;
                    s.push((w[k] - 32 * bit) as char);
                    k += 1;
                }
            }
            3 => {
                s.push_str("nb");
                s.push_str(&sym::any_str("r", "hex:30-39", 0, 1));
            }
            4 => s.push_str(&sym::any_str("l", "hex:41-5a,61-7a", 1, 1)),
            5 => s.push_str(&sym::any_str("o", "hex:21-2d,2f,3a-40,5b-5e,60,7b-7e", 1, 1)),
            _ => s.push_str(&sym::any_str("u", "hex:c3a9,c3a0,e282ac", 1, 1)),
        }
        i += 1;
    }
    let got = DeweyVersion::new(&s);
    let (gv, gr) = verif_in::parts(&got);
    sym::observe_usize("ncomps", gv.len());
    sym::observe_i64("rev", gr);
    let want = spec::tokenise(s.as_bytes(), false);
    let same = spec::vec_eq(gv, &want.comps) & (gr == want.rev);
    sym::cover("long-version", gv.len() >= 4);
    sym::cover("has-revision", gr > 0);
    if want.has_letter && sym::kf_listed("letter-weight") {
        let dev = spec::tokenise(s.as_bytes(), true);
        let same_dev = spec::vec_eq(gv, &dev.comps) & (gr == dev.rev);
        sym::known_finding("letter-weight", !same & same_dev);
        sym::check("C01/token-strings", want.nb_case | same | same_dev);
    } else {
        sym::check("C01/token-strings", want.nb_case | same);
    }
}
