//! C01 Version comparison follows pkg_install's dewey ordering.
use super::{spec, sym};
use crate::dewey::{verif_in, DeweyVersion};

/// Tokeniser: real `DeweyVersion::new` against `spec::tokenise` for every ASCII string.
pub fn h_tokeniser() {
    let s = sym::any_str("s", "ascii", 0, 5);
    let got = DeweyVersion::new(&s);
    let (gv, gr) = verif_in::parts(&got);
    sym::observe_usize("ncomps", gv.len());
    sym::observe_i64("rev", gr);
    let want = spec::tokenise(s.as_bytes(), false);
    let same = spec::vec_eq(gv, &want.comps) & (gr == want.rev);
    sym::cover("tokenised-something", gv.len() > 0);
    if want.has_letter && sym::kf_listed("letter-weight") {
        let dev = spec::tokenise(s.as_bytes(), true);
        let same_dev = spec::vec_eq(gv, &dev.comps) & (gr == dev.rev);
        sym::known_finding("letter-weight", !same & same_dev);
        sym::check("C01/tokeniser", want.nb_case | same | same_dev);
    } else {
        sym::check("C01/tokeniser", want.nb_case | same);
    }
}
