//! C14 PLIST parses to one entry per non-blank line, arguments kept byte for byte.
use super::{spec, sym};
use crate::plist::{Plist, PlistEntry, PlistOption};
use std::ffi::OsString;
use std::os::unix::ffi::OsStringExt;

fn os(b: &[u8]) -> OsString {
    OsString::from_vec(b.to_vec())
}

/// What the statement says a single line parses to.  None = error.
pub fn spec_entry(line: &[u8]) -> Option<PlistEntry> {
    if line.is_empty() || line[0] != b'@' {
        return Some(PlistEntry::File(os(line)));
    }
    // command word = up to the first space
    let mut i = 0;
    while i < line.len() && line[i] != b' ' {
        i += 1;
    }
    let cmd = &line[0..i];
    // argument: stripped of leading blanks only
    let mut j = i;
    while j < line.len() && (line[j] == b' ' || line[j] == b'\t') {
        j += 1;
    }
    let arg: Option<&[u8]> = if j < line.len() { Some(&line[j..]) } else { None };
    let utf8 = |b: &[u8]| -> Option<String> { String::from_utf8(b.to_vec()).ok() };
    if cmd == b"@cwd" || cmd == b"@src" || cmd == b"@cd" {
        return arg.map(|a| PlistEntry::Cwd(os(a)));
    }
    if cmd == b"@exec" {
        return arg.map(|a| PlistEntry::Exec(os(a)));
    }
    if cmd == b"@unexec" {
        return arg.map(|a| PlistEntry::UnExec(os(a)));
    }
    if cmd == b"@option" {
        return match arg {
            Some(a) if a == b"preserve" => Some(PlistEntry::PkgOpt(PlistOption::Preserve)),
            _ => None,
        };
    }
    if cmd == b"@mode" {
        return match arg {
            Some(a) => utf8(a).map(|s| PlistEntry::Mode(Some(s))),
            None => Some(PlistEntry::Mode(None)),
        };
    }
    if cmd == b"@owner" {
        return match arg {
            Some(a) => utf8(a).map(|s| PlistEntry::Owner(Some(s))),
            None => Some(PlistEntry::Owner(None)),
        };
    }
    if cmd == b"@group" {
        return match arg {
            Some(a) => utf8(a).map(|s| PlistEntry::Group(Some(s))),
            None => Some(PlistEntry::Group(None)),
        };
    }
    if cmd == b"@comment" {
        return Some(PlistEntry::Comment(arg.map(os)));
    }
    if cmd == b"@ignore" {
        return if arg.is_none() { Some(PlistEntry::Ignore) } else { None };
    }
    if cmd == b"@name" {
        return arg.and_then(utf8).map(PlistEntry::Name);
    }
    if cmd == b"@pkgdep" {
        return arg.and_then(utf8).map(PlistEntry::PkgDep);
    }
    if cmd == b"@blddep" {
        return arg.and_then(utf8).map(PlistEntry::BldDep);
    }
    if cmd == b"@pkgcfl" {
        return arg.and_then(utf8).map(PlistEntry::PkgCfl);
    }
    if cmd == b"@pkgdir" {
        return arg.map(|a| PlistEntry::PkgDir(os(a)));
    }
    if cmd == b"@dirrm" {
        return arg.map(|a| PlistEntry::DirRm(os(a)));
    }
    if cmd == b"@display" {
        return arg.map(|a| PlistEntry::Display(os(a)));
    }
    None
}

pub const CMDS: [&str; 22] = [
    "@cwd", "@src", "@cd", "@exec", "@unexec", "@option", "@mode", "@owner", "@group", "@comment", "@ignore",
    "@name", "@pkgdep", "@blddep", "@pkgcfl", "@pkgdir", "@dirrm", "@display", "@bogus", "@", "@Name", "@cwdx",
];

/// bytes allowed in generated arguments / file names: everything except NL VT FF CR
/// (the statement speaks of "leading blanks"; stripping of other control whitespace is not asserted)
pub const ARG: &str = "hex:00-09,0e-ff";

fn gen_line() -> Vec<u8> {
    let mut l: Vec<u8> = Vec::new();
    if sym::choose("iscmd", 2) == 0 {
        // file line: arbitrary bytes, >= 1
        l.extend_from_slice(&sym::any_bytes("file", ARG, 1, sym::bound(3, 4)));
        return l;
    }
    l.extend_from_slice(CMDS[sym::choose("cmd", CMDS.len())].as_bytes());
    match sym::choose("sep", 4) {
        0 => return l,
        1 => l.push(b' '),
        2 => l.extend_from_slice(b"  "),
        _ => l.extend_from_slice(b" \t"),
    }
    if sym::choose("argkind", 2) == 0 {
        l.extend_from_slice(&sym::any_bytes("arg", ARG, 0, sym::bound(2, 3)));
    } else {
        l.extend_from_slice(b"preserve");
    }
    l
}

pub fn h_entry() {
    let line = gen_line();
    let got = PlistEntry::from_bytes(&line);
    let want = spec_entry(&line);
    sym::observe_bool("ok", got.is_ok());
    sym::cover("ok", got.is_ok());
    sym::cover("err", got.is_err());
    match (got, want) {
        (Ok(g), Some(w)) => sym::check("C14/entry-equals-spec", g == w),
        (Err(_), None) => sym::check("C14/error-expected", true),
        (Ok(_), None) => sym::check("C14/should-be-error", false),
        (Err(_), Some(_)) => sym::check("C14/should-parse", false),
    }
}

fn is_ws(b: u8) -> bool {
    b == b' ' || b == b'\t' || b == b'\r' || b == 0x0b || b == 0x0c
}

fn list_check(text: &[u8]) {
    // expected: per-line result of each line that has a non-whitespace byte
    let mut want: Vec<PlistEntry> = Vec::new();
    let mut want_err = false;
    let mut start = 0;
    let mut i = 0;
    while i <= text.len() {
        if i == text.len() || text[i] == b'\n' {
            let line = &text[start..i];
            let mut nonblank = false;
            for b in line {
                nonblank = nonblank | !is_ws(*b);
            }
            if nonblank {
                match PlistEntry::from_bytes(line) {
                    Ok(e) => want.push(e),
                    Err(_) => want_err = true,
                }
            }
            start = i + 1;
        }
        i += 1;
    }
    let got = Plist::from_bytes(text);
    sym::observe_bool("ok", got.is_ok());
    match got {
        Err(_) => sym::check("C14/list-error-iff-line-error", want_err),
        Ok(p) => {
            let es = crate::plist::verif_in::entries(&p);
            sym::observe_usize("n", es.len());
            sym::cover("two-entries", es.len() >= 2);
            sym::check("C14/list-error-iff-line-error", !want_err);
            if !want_err {
                sym::check("C14/one-entry-per-nonblank-line", es.len() == want.len());
                if es.len() == want.len() {
                    let mut same = true;
                    let mut k = 0;
                    while k < want.len() {
                        same = same & (es[k] == want[k]);
                        k += 1;
                    }
                    sym::check("C14/entries-in-order", same);
                }
            }
        }
    }
}

/// short lines over a small alphabet: blank / 1-byte / whitespace-only lines, final newline or not
pub fn h_list_small() {
    let nl = sym::bound(3, 3);
    let mut text: Vec<u8> = Vec::new();
    let k = 1 + sym::choose("nlines", nl);
    let mut i = 0;
    while i < k {
        text.extend_from_slice(&sym::any_bytes("l", "hex:61,40,20,09,a0", 0, 2));
        if i + 1 < k || sym::choose("finalnl", 2) == 0 {
            text.push(b'\n');
        }
        i += 1;
    }
    list_check(&text);
}

/// realistic lines (commands with arguments) in a list
pub fn h_list_lines() {
    let mut text: Vec<u8> = Vec::new();
    let k = 1 + sym::choose("nlines", 2);
    let mut i = 0;
    while i < k {
        match sym::choose("kind", 5) {
            0 => text.extend_from_slice(b"bin/x"),
            1 => text.extend_from_slice(&sym::any_bytes("f", ARG, 1, 2)),
            2 => text.extend_from_slice(b"@comment x"),
            3 => text.extend_from_slice(b"@ignore"),
            _ => text.extend_from_slice(b"  "),
        }
        if i + 1 < k || sym::choose("finalnl", 2) == 0 {
            text.push(b'\n');
        }
        i += 1;
    }
    list_check(&text);
}
