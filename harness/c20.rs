//! C20 Package database iteration lists each installed package once, correctly split.
use super::{spec, sym};
use crate::pkgdb::PkgDB;
use crate::{Metadata, MetadataEntry};

pub const FILES: [&str; 14] = [
    "+BUILD_INFO", "+BUILD_VERSION", "+COMMENT", "+CONTENTS", "+DEINSTALL", "+DESC", "+DISPLAY", "+INSTALL",
    "+INSTALLED_INFO", "+MTREE_DIRS", "+PRESERVE", "+REQUIRED_BY", "+SIZE_ALL", "+SIZE_PKG",
];

pub fn entry_of(i: usize) -> MetadataEntry {
    match i {
        0 => MetadataEntry::BuildInfo,
        1 => MetadataEntry::BuildVersion,
        2 => MetadataEntry::Comment,
        3 => MetadataEntry::Contents,
        4 => MetadataEntry::DeInstall,
        5 => MetadataEntry::Desc,
        6 => MetadataEntry::Display,
        7 => MetadataEntry::Install,
        8 => MetadataEntry::InstalledInfo,
        9 => MetadataEntry::MtreeDirs,
        10 => MetadataEntry::Preserve,
        11 => MetadataEntry::RequiredBy,
        12 => MetadataEntry::SizeAll,
        _ => MetadataEntry::SizePkg,
    }
}

pub fn h_iterate() {
    let root = sym::fs_root();
    let db = root.join("db");
    sym::fs_add_dir(&db);
    let n = sym::choose("n", sym::bound(2, 2) + 1);
    let mut names: Vec<String> = Vec::new();
    let mut complete: Vec<bool> = Vec::new();
    let mut i = 0;
    while i < n {
        // distinct names: a per-entry prefix, one or two '-', optional nb revision
        let mut name = format!("p{}", i);
        // a middle component that starts with a letter or with a digit (only the LAST '-' separates the version)
        name.push_str(["", "-x", "-2.0"][sym::choose("two-dashes", 3)]);
        name.push('-');
        name.push_str(&sym::any_str("ver", "set:1.anb", 1, sym::bound(2, 3)));
        let dir = db.join(&name);
        let kind = sym::choose("kind", 6);
        match kind {
            0 => sym::fs_add_file(&dir, b"plain file"),
            _ => {
                sym::fs_add_dir(&dir);
                // kind 1..3: one mandatory file missing; 4: complete; 5: complete + extra
                if kind != 1 {
                    sym::fs_add_file(&dir.join("+COMMENT"), format!("comment of {}", i).as_bytes());
                }
                if kind != 2 {
                    sym::fs_add_file(&dir.join("+CONTENTS"), b"@name x\n");
                }
                if kind != 3 {
                    sym::fs_add_file(&dir.join("+DESC"), b"desc\n");
                }
                if kind == 5 {
                    sym::fs_add_file(&dir.join("+SIZE_PKG"), b"12\n");
                    sym::fs_add_file(&dir.join("stray"), b"");
                }
            }
        }
        names.push(name);
        complete.push(kind >= 4);
        i += 1;
    }
    let mut seen = vec![0usize; n];
    let pkgdb = match PkgDB::open(&db) {
        Ok(p) => p,
        Err(_) => {
            sym::check("C20/opens", false);
            return;
        }
    };
    let mut count = 0;
    for p in pkgdb {
        let p = match p {
            Ok(p) => p,
            Err(_) => {
                sym::check("C20/iteration-error", false);
                return;
            }
        };
        count += 1;
        let mut hit = false;
        for k in 0..n {
            if spec::bytes_eq(p.pkgname().as_bytes(), names[k].as_bytes()) {
                seen[k] += 1;
                hit = true;
                let nb = names[k].as_bytes();
                let d = spec::last_dash(nb).unwrap();
                sym::check("C20/pkgbase", spec::bytes_eq(p.pkgbase().as_bytes(), &nb[0..d]));
                sym::check("C20/pkgversion", spec::bytes_eq(p.pkgversion().as_bytes(), &nb[d + 1..]));
                let want = format!("comment of {}", k);
                match p.read_metadata(MetadataEntry::Comment) {
                    Ok(c) => sym::check("C20/read-metadata", c == want),
                    Err(_) => sym::check("C20/read-metadata-ok", false),
                }
                if k < complete.len() {
                    let sz = p.read_metadata(MetadataEntry::SizePkg);
                    sym::cover("optional-file-read", sz.is_ok());
                }
            }
        }
        sym::check("C20/yields-only-directory-names", hit);
    }
    sym::observe_usize("count", count);
    sym::cover("two-packages", count >= 2);
    let mut ok = true;
    for k in 0..n {
        ok = ok & (seen[k] == if complete[k] { 1 } else { 0 });
    }
    sym::check("C20/exactly-the-complete-directories-once", ok);
}

/// MetadataEntry <-> file name is a bijection over the 14 '+' files
pub fn h_filenames() {
    let i = sym::choose("name", 14);
    sym::check("C20/to-filename", entry_of(i).to_filename() == FILES[i]);
    let mut s: Vec<u8> = FILES[i].as_bytes().to_vec();
    match sym::choose("edit", 5) {
        0 => {}
        1 => {
            let k = sym::choose("at", s.len());
            s[k] = sym::any_u8("byte");
        }
        2 => {
            let k = sym::choose("at", s.len());
            s.remove(k);
        }
        3 => s.push(sym::any_u8("byte")),
        _ => {
            let k = sym::choose("at", s.len());
            s[k] ^= 0x20;
        }
    }
    let st = match String::from_utf8(s.clone()) {
        Ok(st) => st,
        Err(_) => return,
    };
    let got = MetadataEntry::from_filename(&st);
    let mut want: Option<usize> = None;
    for (j, f) in FILES.iter().enumerate() {
        if spec::bytes_eq(f.as_bytes(), &s) {
            want = Some(j);
        }
    }
    sym::cover("known", got.is_some());
    sym::cover("unknown", got.is_none());
    match (got, want) {
        (Some(e), Some(j)) => sym::check("C20/from-filename", e == entry_of(j)),
        (None, None) => sym::check("C20/from-filename-none", true),
        _ => sym::check("C20/from-filename-bijection", false),
    }
}

/// is_valid holds exactly when comment, contents and description are all non-empty
pub fn h_is_valid() {
    let mut m = Metadata::new();
    let mut nonempty = [false; 3];
    let calls = sym::choose("ncalls", sym::bound(3, 3) + 1);
    let mut i = 0;
    while i < calls {
        let e = [2usize, 3, 5, 0, 6, 12][sym::choose("entry", 6)];
        let v = if e == 12 { "42".to_string() } else { sym::any_str("val", "set:a \n", 0, 2) };
        let _ = m.read_metadata(entry_of(e), &v);
        let trimmed_nonempty = v.as_bytes().iter().any(|b| *b == b'a');
        match e {
            2 => nonempty[0] = nonempty[0] | trimmed_nonempty,
            3 => nonempty[1] = nonempty[1] | trimmed_nonempty,
            5 => nonempty[2] = nonempty[2] | trimmed_nonempty,
            _ => {}
        }
        i += 1;
    }
    let want = nonempty[0] & nonempty[1] & nonempty[2];
    sym::cover("valid", want);
    sym::check("C20/is-valid", m.is_valid().is_ok() == want);
}
