//! C17 No input makes a parser or matcher panic or hang.
//! Every harness only drives an entry point; any path that ends in a panic (or exceeds the
//! interpreter's step cap) is reported by the engine.
use super::{c07, c20, sym};
use crate::digest::Digest;
use crate::distinfo::Distinfo;
use crate::plist::{Plist, PlistEntry};
use crate::summary::{Summary, SummaryStream};
use crate::{Depend, Dewey, Metadata, Pattern, PkgName, PkgPath, ScanIndex};
use std::io::Write;
use std::str::FromStr;

pub fn h_pattern() {
    let p = sym::any_str("p", "utf8", 0, sym::bound(3, 4));
    let a = sym::any_str("a", "utf8", 0, sym::bound(2, 3));
    if let Ok(c) = Pattern::new(&p) {
        let m = c.matches(&a);
        let _ = c.best_match(&a, "pk-1.0");
        let _ = c.best_match("pk-1.0nb1", &a);
        sym::cover("matched", m);
    }
    let _ = Dewey::new(&p).map(|d| d.matches(&a));
    sym::check("C17/pattern-returns", true);
}

/// structured patterns: operators, braces, globs and long digit runs
pub fn h_pattern_tokens() {
    let mut p = String::new();
    let n = sym::choose("ntok", sym::bound(3, 4) + 1);
    let mut i = 0;
    while i < n {
        match sym::choose("tok", 10) {
            0 => p.push_str(">="),
            1 => p.push('<'),
            2 => p.push('{'),
            3 => p.push('}'),
            4 => p.push(','),
            5 => p.push_str("[0-9]*"),
            6 => p.push('-'),
            7 => {
                // long runs: a concrete prefix around the i64 boundary and two symbolic digits
                match sym::choose("ndigits", 4) {
                    0 => {}
                    1 => p.push_str("9223372036854775"),
                    2 => p.push_str("92233720368547758"),
                    _ => p.push_str("922337203685477580"),
                }
                p.push_str(&sym::any_str("digits", "hex:30-39", 1, 2));
            }
            8 => p.push_str("é"),
            _ => p.push_str(&sym::any_str("c", "set:a.[*?nb", 1, 1)),
        }
        i += 1;
    }
    let name = match sym::choose("name", 3) {
        0 => "a-1".to_string(),
        1 => {
            let pre = ["", "92233720368547758", "922337203685477580"][sym::choose("nlen", 3)];
            format!("a-{}{}", pre, sym::any_str("ndigits", "hex:30-39", 1, 2))
        }
        _ => sym::any_str("n", "set:a-1é", 0, 3),
    };
    if let Ok(c) = Pattern::new(&p) {
        let _ = c.matches(&name);
        let _ = c.best_match(&name, "a-99999999999999999999");
    }
    sym::check("C17/pattern-tokens-returns", true);
}

pub fn h_names() {
    let s = sym::any_str("s", "utf8", 0, sym::bound(3, 5));
    let n = PkgName::new(&s);
    let _ = (n.pkgbase().len(), n.pkgversion().len(), n.pkgrevision());
    let _ = PkgPath::new(&s);
    let _ = Depend::new(&s);
    let _ = Digest::from_str(&s);
    let _ = crate::MetadataEntry::from_filename(&s);
    sym::check("C17/names-return", true);
}

pub fn h_revision_digits() {
    let pre = ["", "92233720368547758", "9223372036854775809"][sym::choose("pre", 3)];
    let s = format!("p-1nb{}{}", pre, sym::any_str("d", "hex:30-39", 0, 2));
    let n = PkgName::new(&s);
    let _ = n.pkgrevision();
    let p = Pattern::new("p>=1").unwrap();
    let _ = p.matches(&s);
    sym::check("C17/revision-returns", true);
}

pub fn h_summary_text() {
    // lines: a real or symbolic name, optional '=', symbolic value
    let mut t = String::new();
    let n = sym::choose("nlines", sym::bound(2, 3) + 1);
    let mut i = 0;
    while i < n {
        let kind = sym::choose("name", 5);
        match kind {
            0 => t.push_str("COMMENT"),
            1 => t.push_str("DESCRIPTION"),
            2 => t.push_str(if i % 2 == 0 { "SIZE_PKG" } else { "FILE_SIZE" }),
            3 => t.push_str(&sym::any_str("nm", "utf8-nonl", 1, 1)),
            _ => {}
        }
        if sym::choose("eq", 2) == 1 {
            t.push('=');
        }
        if kind == 2 {
            t.push_str(&sym::any_str("num", "set:-+9a", 0, 2));
        } else {
            t.push_str(&sym::any_str("val", "set:a=é", 0, 1));
        }
        if i + 1 < n || sym::choose("nl", 2) == 1 {
            t.push('\n');
        }
        i += 1;
    }
    if let Ok(s) = Summary::from_str(&t) {
        let _ = s.to_string();
    }
    sym::check("C17/summary-returns", true);
}

pub fn h_summary_stream() {
    let mut s = SummaryStream::new();
    let k = sym::choose("nwrites", sym::bound(3, 4));
    let mut i = 0;
    while i < k {
        let chunk = match sym::choose("kind", 3) {
            0 => sym::any_bytes("chunk", "bytes", 0, sym::bound(2, 4)),
            1 => b"COMMENT=x\n\n".to_vec(),
            _ => sym::any_bytes("nl", "hex:0a,3d,41,c3", 0, sym::bound(3, 5)),
        };
        let _ = s.write(&chunk);
        i += 1;
    }
    let _ = s.flush();
    let _ = s.to_string();
    sym::check("C17/stream-returns", true);
}

pub fn h_bytes_parsers() {
    let b = sym::any_bytes("b", "bytes", 0, sym::bound(4, 5));
    let _ = Plist::from_bytes(&b);
    let _ = PlistEntry::from_bytes(&b);
    let d = Distinfo::from_bytes(&b);
    let _ = d.as_bytes();
    let _ = ScanIndex::from_reader(&b[..]);
    sym::check("C17/byte-parsers-return", true);
}

pub fn h_distinfo_line() {
    // a recognisable line skeleton with symbolic pieces
    let mut l: Vec<u8> = Vec::new();
    l.extend_from_slice(match sym::choose("kw", 4) {
        0 => b"SHA1" as &[u8],
        1 => b"Size",
        2 => b"$NetBSD: ",
        _ => b"",
    });
    l.extend_from_slice(&sym::any_bytes("rest", "hex:20,28,29,3d,61,39,a0", 0, sym::bound(5, 6)));
    let d = Distinfo::from_bytes(&l);
    let _ = d.as_bytes();
    sym::check("C17/distinfo-line-returns", true);
}

pub fn h_plist_line() {
    let mut l: Vec<u8> = Vec::new();
    l.extend_from_slice(super::c14::CMDS[sym::choose("cmd", super::c14::CMDS.len())].as_bytes());
    l.extend_from_slice(&sym::any_bytes("rest", "bytes", 0, sym::bound(2, 4)));
    let _ = PlistEntry::from_bytes(&l);
    let _ = Plist::from_bytes(&l).map(|p| (p.files().len(), p.files_prefixed().len(), p.install_cmds().len()));
    sym::check("C17/plist-line-returns", true);
}

pub fn h_scanindex() {
    let mut t: Vec<u8> = Vec::new();
    let n = sym::choose("nlines", sym::bound(2, 3) + 1);
    let mut i = 0;
    while i < n {
        match sym::choose("key", 5) {
            0 => t.extend_from_slice(b"PKGNAME="),
            1 => t.extend_from_slice(b"ALL_DEPENDS="),
            2 => t.extend_from_slice(b"PKG_LOCATION="),
            3 => t.extend_from_slice(b"SCAN_DEPENDS="),
            _ => {}
        }
        t.extend_from_slice(&sym::any_bytes("val", "hex:20,3a,3d,2f,2e,61,3e,7b,c3,a9,ff", 0, sym::bound(2, 4)));
        t.push(b'\n');
        i += 1;
    }
    let _ = ScanIndex::from_reader(&t[..]);
    sym::check("C17/scanindex-returns", true);
}

pub fn h_metadata() {
    let mut m = Metadata::new();
    let e = sym::choose("entry", 14);
    let v = sym::any_str("val", "set:a 9-+\n", 0, sym::bound(3, 4));
    let _ = m.read_metadata(c20::entry_of(e), &v);
    let _ = m.is_valid();
    sym::check("C17/metadata-returns", true);
}

pub fn h_pkgdb() {
    let root = sym::fs_root();
    let db = root.join("db");
    sym::fs_add_dir(&db);
    let name = sym::any_str("name", "set:a-1.é", 1, sym::bound(3, 4));
    sym::assume(name != "." && name != "..");
    let dir = db.join(&name);
    sym::fs_add_dir(&dir);
    sym::fs_add_file(&dir.join("+COMMENT"), b"c");
    sym::fs_add_file(&dir.join("+CONTENTS"), b"c");
    sym::fs_add_file(&dir.join("+DESC"), b"c");
    if let Ok(p) = crate::pkgdb::PkgDB::open(&db) {
        for e in p {
            if let Ok(e) = e {
                sym::cover("package-listed", true);
                let _ = (e.pkgname().len(), e.pkgbase().len(), e.pkgversion().len());
            }
        }
    }
    sym::check("C17/pkgdb-returns", true);
}

/// arbitrary short sequences of Summary setter / pusher / getter calls
pub fn h_summary_calls() {
    let mut s = Summary::new();
    let k = sym::choose("ncalls", sym::bound(2, 3) + 1);
    let mut i = 0;
    while i < k {
        let v = sym::choose("var", 23);
        match sym::choose("op", 3) {
            0 => match c07::KIND[v] {
                0 => c07::set_s(&mut s, v, "x"),
                1 => c07::set_a(&mut s, v, &["x".to_string()]),
                _ => c07::set_i(&mut s, v, -1),
            },
            1 => {
                if c07::KIND[v] == 1 {
                    c07::push_a(&mut s, v, "y");
                }
            }
            _ => match c07::KIND[v] {
                0 => {
                    let _ = c07::get_s(&s, v);
                }
                1 => {
                    let _ = c07::get_a(&s, v);
                }
                _ => {
                    let _ = c07::get_i(&s, v);
                }
            },
        }
        i += 1;
    }
    let _ = (s.is_completed(), s.pkgbase(), s.pkgversion(), s.description_as_str(), s.to_string());
    sym::check("C17/summary-calls-return", true);
}
