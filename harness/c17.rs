//! C17 No input makes a parser or matcher panic or hang.
//! Every harness only drives an entry point; any path that ends in a panic (or exceeds the
//! interpreter's step cap) is reported by the engine.
use super::{c07, c20, sym};
use crate::digest::Digest;
use crate::distinfo::Distinfo;
use crate::plist::{Plist, PlistEntry};
use crate::summary::{Summary, SummaryStream};
use crate::{Depend, Dewey, Metadata, Pattern, PkgName, PkgPath, ScanIndex};
use std::io::Write;
use std::str::FromStr;

pub fn h_pattern() {
    let p = sym::any_str("p", "utf8", 0, sym::bound(3, 3));
    let a = sym::any_str("a", "utf8", 0, sym::bound(2, 2));
    if let Ok(c) = Pattern::new(&p) {
        let m = c.matches(&a);
        let _ = c.best_match(&a, "pk-1.0");
        let _ = c.best_match("pk-1.0nb1", &a);
        sym::cover("matched", m);
    }
    let _ = Dewey::new(&p).map(|d| d.matches(&a));
    sym::check("C17/pattern-returns", true);
}

/// structured patterns: operators, braces, globs and long digit runs
pub fn h_pattern_tokens() {
    let mut p = String::new();
    let n = sym::choose("ntok", sym::bound(3, 3) + 1);
    let mut i = 0;
    while i < n {
        match sym::choose("tok", 10) {
            0 => p.push_str(">="),
            1 => p.push('<'),
            2 => p.push('{'),
            3 => p.push('}'),
            4 => p.push(','),
            5 => p.push_str("[0-9]*"),
            6 => p.push('-'),
            7 => {
                // long runs: a concrete prefix around the i64 boundary and two symbolic digits
                match sym::choose("ndigits", 4) {
                    0 => {}
                    1 => p.push_str("9223372036854775"),
                    2 => p.push_str("92233720368547758"),
                    _ => p.push_str("922337203685477580"),
                }
                p.push_str(&sym::any_str("digits", "hex:30-39", 1, 2));
            }
            8 => p.push_str("é"),
            _ => p.push_str(&sym::any_str("c", "set:a.[*?nb", 1, 1)),
        }
        i += 1;
    }
    let name = match sym::choose("name", 3) {
        0 => "a-1".to_string(),
        1 => {
            let pre = ["", "92233720368547758", "922337203685477580"][sym::choose("nlen", 3)];
            format!("a-{}{}", pre, sym::any_str("ndigits", "hex:30-39", 1, 2))
        }
        _ => sym::any_str("n", "set:a-1é", 0, 3),
    };
    if let Ok(c) = Pattern::new(&p) {
        let _ = c.matches(&name);
        let _ = c.best_match(&name, "a-99999999999999999999");
    }
    sym::check("C17/pattern-tokens-returns", true);
}

pub fn h_names() {
    let s = sym::any_str("s", "utf8", 0, sym::bound(3, 4));
    let n = PkgName::new(&s);
    let _ = (n.pkgbase().len(), n.pkgversion().len(), n.pkgrevision());
    let _ = PkgPath::new(&s);
    let _ = Depend::new(&s);
    let _ = Digest::from_str(&s);
    let _ = crate::MetadataEntry::from_filename(&s);
    sym::check("C17/names-return", true);
}

pub fn h_revision_digits() {
    let pre = ["", "92233720368547758", "9223372036854775809"][sym::choose("pre", 3)];
    let s = format!("p-1nb{}{}", pre, sym::any_str("d", "hex:30-39", 0, 2));
    let n = PkgName::new(&s);
    let _ = n.pkgrevision();
    let p = Pattern::new("p>=1").unwrap();
    let _ = p.matches(&s);
    sym::check("C17/revision-returns", true);
}

pub fn h_summary_text() {
    // lines: a real or symbolic name, optional '=', symbolic value
    let mut t = String::new();
    let n = sym::choose("nlines", sym::bound(2, 2) + 1);
    let mut i = 0;
    while i < n {
        let kind = sym::choose("name", 5);
        match kind {
            0 => t.push_str("COMMENT"),
            1 => t.push_str("DESCRIPTION"),
            2 => t.push_str(if i % 2 == 0 { "SIZE_PKG" } else { "FILE_SIZE" }),
            3 => t.push_str(&sym::any_str("nm", "utf8-nonl", 1, 1)),
            _ => {}
        }
        if sym::choose("eq", 2) == 1 {
            t.push('=');
        }
        if kind == 2 {
            t.push_str(&sym::any_str("num", "set:-+9a", 0, 2));
        } else {
            t.push_str(&sym::any_str("val", "set:a=é", 0, 1));
        }
        if i + 1 < n || sym::choose("nl", 2) == 1 {
            t.push('\n');
        }
        i += 1;
    }
    if let Ok(s) = Summary::from_str(&t) {
        let _ = s.to_string();
    }
    sym::check("C17/summary-returns", true);
}

pub fn h_summary_stream() {
    let mut s = SummaryStream::new();
    let k = sym::choose("nwrites", sym::bound(3, 3));
    let mut i = 0;
    while i < k {
        let chunk = match sym::choose("kind", 3) {
            0 => sym::any_bytes("chunk", "bytes", 0, sym::bound(2, 2)),
            1 => b"COMMENT=x\n\n".to_vec(),
            _ => sym::any_bytes("nl", "hex:0a,3d,41,c3", 0, sym::bound(3, 3)),
        };
        let _ = s.write(&chunk);
        i += 1;
    }
    let _ = s.flush();
    let _ = s.to_string();
    sym::check("C17/stream-returns", true);
}

pub fn h_bytes_parsers() {
    let b = sym::any_bytes("b", "bytes", 0, sym::bound(4, 4));
    let _ = Plist::from_bytes(&b);
    let _ = PlistEntry::from_bytes(&b);
    let d = Distinfo::from_bytes(&b);
    let _ = d.as_bytes();
    let _ = ScanIndex::from_reader(&b[..]);
    sym::check("C17/byte-parsers-return", true);
}

pub fn h_distinfo_line() {
    // a recognisable line skeleton with symbolic pieces
    let mut l: Vec<u8> = Vec::new();
    l.extend_from_slice(match sym::choose("kw", 4) {
        0 => b"SHA1" as &[u8],
        1 => b"Size",
        2 => b"$NetBSD: ",
        _ => b"",
    });
    l.extend_from_slice(&sym::any_bytes("rest", "hex:20,28,29,3d,61,39,a0", 0, sym::bound(5, 6)));
    let d = Distinfo::from_bytes(&l);
    let _ = d.as_bytes();
    sym::check("C17/distinfo-line-returns", true);
}

pub fn h_plist_line() {
    let mut l: Vec<u8> = Vec::new();
    l.extend_from_slice(super::c14::CMDS[sym::choose("cmd", super::c14::CMDS.len())].as_bytes());
    l.extend_from_slice(&sym::any_bytes("rest", "bytes", 0, sym::bound(2, 3)));
    let _ = PlistEntry::from_bytes(&l);
    let _ = Plist::from_bytes(&l).map(|p| (p.files().len(), p.files_prefixed().len(), p.install_cmds().len()));
    sym::check("C17/plist-line-returns", true);
}

pub fn h_scanindex() {
    let mut t: Vec<u8> = Vec::new();
    let n = sym::choose("nlines", sym::bound(2, 2) + 1);
    let mut i = 0;
    while i < n {
        match sym::choose("key", 5) {
            0 => t.extend_from_slice(b"PKGNAME="),
            1 => t.extend_from_slice(b"ALL_DEPENDS="),
            2 => t.extend_from_slice(b"PKG_LOCATION="),
            3 => t.extend_from_slice(b"SCAN_DEPENDS="),
            _ => {}
        }
        t.extend_from_slice(&sym::any_bytes("val", "hex:20,3a,3d,2f,2e,61,3e,7b,c3,a9,ff", 0, sym::bound(2, 2)));
        t.push(b'\n');
        i += 1;
    }
    let _ = ScanIndex::from_reader(&t[..]);
    sym::check("C17/scanindex-returns", true);
}

pub fn h_metadata() {
    let mut m = Metadata::new();
    let e = sym::choose("entry", 14);
    let v = sym::any_str("val", "set:a 9-+\n", 0, sym::bound(3, 4));
    let _ = m.read_metadata(c20::entry_of(e), &v);
    let _ = m.is_valid();
    sym::check("C17/metadata-returns", true);
}

pub fn h_pkgdb() {
    let root = sym::fs_root();
    let db = root.join("db");
    sym::fs_add_dir(&db);
    let name = sym::any_str("name", "set:a-1.é", 1, sym::bound(3, 3));
    sym::assume(name != "." && name != "..");
    let dir = db.join(&name);
    sym::fs_add_dir(&dir);
    sym::fs_add_file(&dir.join("+COMMENT"), b"c");
    sym::fs_add_file(&dir.join("+CONTENTS"), b"c");
    sym::fs_add_file(&dir.join("+DESC"), b"c");
    if let Ok(p) = crate::pkgdb::PkgDB::open(&db) {
        for e in p {
            if let Ok(e) = e {
                sym::cover("package-listed", true);
                let _ = (e.pkgname().len(), e.pkgbase().len(), e.pkgversion().len());
            }
        }
    }
    sym::check("C17/pkgdb-returns", true);
}

/// arbitrary short sequences of Summary setter / pusher / getter calls
pub fn h_summary_calls() {
    let mut s = Summary::new();
    let k = sym::choose("ncalls", sym::bound(2, 2) + 1);
    let mut i = 0;
    while i < k {
        let v = sym::choose("var", 23);
        match sym::choose("op", 3) {
            0 => match c07::KIND[v] {
                0 => c07::set_s(&mut s, v, "x"),
                1 => c07::set_a(&mut s, v, &["x".to_string()]),
                _ => c07::set_i(&mut s, v, -1),
            },
            1 => {
                if c07::KIND[v] == 1 {
                    c07::push_a(&mut s, v, "y");
                }
            }
            _ => match c07::KIND[v] {
                0 => {
                    let _ = c07::get_s(&s, v);
                }
                1 => {
                    let _ = c07::get_a(&s, v);
                }
                _ => {
                    let _ = c07::get_i(&s, v);
                }
            },
        }
        i += 1;
    }
    let _ = (s.is_completed(), s.pkgbase(), s.pkgversion(), s.description_as_str(), s.to_string());
    sym::check("C17/summary-calls-return", true);
}

/// Long inputs: one unit repeated `n` times, everything concrete except the choice of shape. Reaches what the
/// short symbolic inputs cannot: narrow (8-bit) counters, per-item state that overflows, and loops whose cost grows
/// faster than the input (a path over the interpreter's step cap is reported as a hang).
pub fn h_long() {
    let n = sym::bound(300, 300);
    match sym::choose("shape", 14) {
        0 => {
            // distinfo: one recognised line followed by many further tokens
            let kw: &[u8] = [b"SHA1 (f) = ab" as &[u8], b"Size (f) = 1 bytes", b"$NetBSD: x", b"x"][sym::choose("kw", 4)];
            let mut l = kw.to_vec();
            for _ in 0..n {
                l.extend_from_slice(b" x");
            }
            l.push(b'\n');
            let d = Distinfo::from_bytes(&l);
            let _ = d.as_bytes();
        }
        1 => {
            // distinfo: many files, many checksum lines per file
            let mut t: Vec<u8> = b"$NetBSD$\n\n".to_vec();
            for i in 0..n {
                t.extend_from_slice(format!("SHA1 (f{}) = ab\nRMD160 (f{}) = cd\nSize (f{}) = {} bytes\n", i % 200, i, i, i).as_bytes());
                t.extend_from_slice(format!("SHA512 (patch-{}) = ef\n", i).as_bytes());
            }
            let d = Distinfo::from_bytes(&t);
            let _ = (d.distfiles().len(), d.patchfiles().len());
            let _ = d.as_bytes();
        }
        2 => {
            // PLIST: many lines of every common kind
            let mut t: Vec<u8> = Vec::new();
            for i in 0..n {
                t.extend_from_slice(format!("bin/f{}\n@comment c{}\n@ignore\nbin/g{}\n@cwd /p{}\n@pkgdep d{}-[0-9]*\n", i, i, i, i, i).as_bytes());
            }
            if let Ok(p) = Plist::from_bytes(&t) {
                let _ = (p.files().len(), p.files_prefixed().len(), p.install_cmds().len(), p.uninstall_cmds().len());
                let _ = (p.depends().len(), p.pkgdirs().len(), p.is_preserve());
            }
        }
        3 => {
            // PLIST: one long line (many words, many blanks)
            let mut l: Vec<u8> = super::c14::CMDS[sym::choose("cmd", super::c14::CMDS.len())].as_bytes().to_vec();
            for _ in 0..n {
                l.extend_from_slice(b"  w");
            }
            let _ = PlistEntry::from_bytes(&l);
            let _ = Plist::from_bytes(&l);
        }
        4 => {
            // pkg_summary: many lines of one multi-line variable, long values, many '='
            let mut t = String::new();
            for i in 0..n {
                t.push_str(&format!("DEPENDS=d{}>=1\nDESCRIPTION=line {} = {}\n", i, i, i));
            }
            t.push_str("COMMENT=");
            for _ in 0..n {
                t.push_str("=x");
            }
            t.push('\n');
            if let Ok(s) = Summary::from_str(&t) {
                let _ = s.to_string();
            }
        }
        5 => {
            // pkg_summary stream: many small writes, many entries
            let mut s = SummaryStream::new();
            let ev = super::c09::entry("é", b'a');
            let e = &ev[..];
            let step = 1 + sym::choose("step", 3) * 3;
            let mut k = 0;
            while k < n {
                let mut i = 0;
                while i < e.len() {
                    let j = if i + step < e.len() { i + step } else { e.len() };
                    let _ = s.write(&e[i..j]);
                    i = j;
                }
                k += 60;
            }
            let _ = s.flush();
            let _ = s.entries().len();
        }
        6 => {
            // pbulk-index: many records, long dependency lists
            let mut t: Vec<u8> = Vec::new();
            for i in 0..n / 10 {
                t.extend_from_slice(format!("PKGNAME=p{}-1.0\nPKG_LOCATION=c/p{}\nALL_DEPENDS=", i, i).as_bytes());
                for j in 0..30 {
                    t.extend_from_slice(format!("d{}-[0-9]*:../../c/d{} ", j, j).as_bytes());
                }
                t.extend_from_slice(b"\nnoise\n\nMULTI_VERSION=a b  c\n");
            }
            let _ = ScanIndex::from_reader(&t[..]).map(|v| v.len());
        }
        7 => {
            // alternation: many alternatives and some nesting
            let mut p = String::from("pk-{");
            for i in 0..n / 4 {
                p.push_str(&format!("{},", i));
            }
            p.push_str("{a,{b,{c,{d,e}}}}}");
            if let Ok(c) = Pattern::new(&p) {
                let _ = c.matches("pk-e");
                let _ = c.matches("pk-zz");
            }
        }
        8 => {
            // versions with many components, long digit runs and many modifiers
            let mut v = String::new();
            let unit = ["1.", "0_", "rc", "a", "nb1", "99999999999"][sym::choose("unit", 6)];
            for _ in 0..n {
                v.push_str(unit);
            }
            let p = Pattern::new(&format!("pk>={}<{}9", v, v));
            if let Ok(p) = p {
                let a = format!("pk-{}", v);
                let _ = p.matches(&a);
                let _ = p.best_match(&a, "pk-1");
            }
            let nm = PkgName::new(&format!("pk-{}", v));
            let _ = nm.pkgrevision();
        }
        9 => {
            // package paths and dependencies with many separators
            let unit = ["/", "./", "../", "a/", ":"][sym::choose("unit", 5)];
            let mut s = String::new();
            for _ in 0..n {
                s.push_str(unit);
            }
            s.push_str("cat/pkg");
            let _ = PkgPath::new(&s);
            let _ = Depend::new(&s);
            let _ = Depend::new(&format!("a-[0-9]*:{}", s));
        }
        10 => {
            // names with many dashes
            let mut s = String::new();
            for i in 0..n {
                s.push_str(if i % 3 == 0 { "-" } else { "a" });
            }
            let nm = PkgName::new(&s);
            let _ = (nm.pkgbase().len(), nm.pkgversion().len());
            if let Ok(p) = Pattern::new(&s) {
                let _ = p.matches(&s);
            }
        }
        11 => {
            // Summary: many pushes onto one list, repeated sets
            let mut s = Summary::new();
            for i in 0..n {
                c07::push_a(&mut s, 4, "d>=1");
                if i % 50 == 0 {
                    c07::set_s(&mut s, 2, "c");
                    c07::set_i(&mut s, 7, i as i64);
                }
            }
            let _ = s.to_string().len();
        }
        12 => {
            // metadata: a long +CONTENTS / size text
            let e = sym::choose("entry", 14);
            let mut v = String::new();
            for i in 0..n {
                v.push_str(if e >= 10 { "9" } else { "line\n" });
                let _ = i;
            }
            let mut m = Metadata::new();
            let _ = m.read_metadata(c20::entry_of(e), &v);
            let _ = m.is_valid();
        }
        _ => {
            // digests of a long input through a reader that returns one byte at a time
            let mut data: Vec<u8> = Vec::new();
            for i in 0..n {
                data.extend_from_slice(if i % 7 == 0 { b"$NetBSD$\n" as &[u8] } else { b"x\n" });
            }
            let d = Digest::from_str(["sha1", "BLAKE2s", "md5"][sym::choose("alg", 3)]).unwrap();
            let _ = d.hash_patch(&mut &data[..]);
        }
    }
    sym::check("C17/long-input-returns", true);
}
