//! C15 PLIST queries agree with each other and with the entry sequence.
use super::sym;
use crate::plist::{verif_in, Plist, PlistEntry, PlistOption};
use std::ffi::{OsStr, OsString};
use std::os::unix::ffi::{OsStrExt, OsStringExt};

fn line(kind: usize, i: usize) -> Vec<u8> {
    let tag = [b'a' + i as u8];
    let mut l: Vec<u8> = Vec::new();
    match kind {
        0 => {
            l.extend_from_slice(b"bin/f");
            l.extend_from_slice(&tag);
        }
        1 => l.extend_from_slice(b"@ignore"),
        2 => {
            l.extend_from_slice(b"@cwd /p");
            l.extend_from_slice(&tag);
        }
        3 => l.extend_from_slice(b"@cwd /q/"),
        4 => l.extend_from_slice(b"@cwd /\xff"),
        5 => {
            l.extend_from_slice(b"@exec e");
            l.extend_from_slice(&tag);
        }
        6 => {
            l.extend_from_slice(b"@unexec u");
            l.extend_from_slice(&tag);
        }
        7 => l.extend_from_slice(b"@mode 0644"),
        8 => l.extend_from_slice(b"@owner"),
        9 => l.extend_from_slice(b"@group wheel"),
        10 => {
            l.extend_from_slice(b"@pkgdir d");
            l.extend_from_slice(&tag);
        }
        11 => {
            l.extend_from_slice(b"@dirrm r");
            l.extend_from_slice(&tag);
        }
        12 => {
            l.extend_from_slice(b"@name n");
            l.extend_from_slice(&tag);
        }
        13 => {
            l.extend_from_slice(b"@display m");
            l.extend_from_slice(&tag);
        }
        14 => {
            l.extend_from_slice(b"@pkgdep p");
            l.extend_from_slice(&tag);
        }
        15 => {
            l.extend_from_slice(b"@blddep b");
            l.extend_from_slice(&tag);
        }
        16 => {
            l.extend_from_slice(b"@pkgcfl c");
            l.extend_from_slice(&tag);
        }
        17 => l.extend_from_slice(b"@option preserve"),
        19 => l.extend_from_slice(b"@cwd /\xff/"),
        _ => l.extend_from_slice(b"@comment x"),
    }
    l
}

fn os_eq(a: &OsStr, b: &[u8]) -> bool {
    a.as_bytes() == b
}

fn check_views(p: &Plist) {
    let es = verif_in::entries(p);
    // expected views, straight from the statement
    let mut files: Vec<Vec<u8>> = Vec::new();
    let mut prefixed: Vec<Vec<u8>> = Vec::new();
    let mut inst: Vec<usize> = Vec::new();
    let mut uninst: Vec<usize> = Vec::new();
    let mut ignore = false;
    let mut cwd: Vec<u8> = Vec::new();
    let mut deps: Vec<usize> = Vec::new();
    let mut blds: Vec<usize> = Vec::new();
    let mut cfls: Vec<usize> = Vec::new();
    let mut dirs: Vec<usize> = Vec::new();
    let mut rmdirs: Vec<usize> = Vec::new();
    let mut name: Option<usize> = None;
    let mut display: Option<usize> = None;
    let mut preserve = false;
    let mut i = 0;
    while i < es.len() {
        match &es[i] {
            PlistEntry::File(f) => {
                if ignore {
                    ignore = false;
                } else {
                    files.push(f.as_bytes().to_vec());
                    let mut full = cwd.clone();
                    if full.is_empty() || full[full.len() - 1] != b'/' {
                        full.push(b'/');
                    }
                    full.extend_from_slice(f.as_bytes());
                    prefixed.push(full);
                    inst.push(i);
                    uninst.push(i);
                }
            }
            PlistEntry::Ignore => ignore = true,
            PlistEntry::Cwd(d) => {
                cwd = d.as_bytes().to_vec();
                inst.push(i);
                uninst.push(i);
            }
            PlistEntry::Exec(_) => inst.push(i),
            PlistEntry::UnExec(_) => uninst.push(i),
            PlistEntry::Mode(_) | PlistEntry::Owner(_) | PlistEntry::Group(_) | PlistEntry::PkgDir(_) => {
                inst.push(i);
                uninst.push(i);
                if let PlistEntry::PkgDir(_) = &es[i] {
                    dirs.push(i);
                }
            }
            PlistEntry::DirRm(_) => {
                uninst.push(i);
                rmdirs.push(i);
            }
            PlistEntry::Name(_) => {
                if name.is_none() {
                    name = Some(i);
                }
            }
            PlistEntry::Display(_) => {
                if display.is_none() {
                    display = Some(i);
                }
            }
            PlistEntry::PkgDep(_) => deps.push(i),
            PlistEntry::BldDep(_) => blds.push(i),
            PlistEntry::PkgCfl(_) => cfls.push(i),
            PlistEntry::PkgOpt(PlistOption::Preserve) => preserve = true,
            PlistEntry::Comment(_) => {}
        }
        i += 1;
    }
    sym::cover("some-file", !files.is_empty());
    sym::cover("ignored-file", files.len() < es.iter().filter(|e| matches!(e, PlistEntry::File(_))).count());
    // files()
    let got = p.files();
    sym::observe_usize("nfiles", got.len());
    let mut ok = got.len() == files.len();
    if ok {
        for k in 0..files.len() {
            ok = ok & os_eq(got[k], &files[k]);
        }
    }
    sym::check("C15/files", ok);
    // files_prefixed()
    let got = p.files_prefixed();
    let mut ok = got.len() == prefixed.len();
    if ok {
        for k in 0..prefixed.len() {
            ok = ok & os_eq(&got[k], &prefixed[k]);
        }
    }
    sym::check("C15/files_prefixed", ok);
    // install / uninstall command lists: exactly those entries, in order
    let got = p.install_cmds();
    let mut ok = got.len() == inst.len();
    if ok {
        for k in 0..inst.len() {
            ok = ok & std::ptr::eq(got[k], &es[inst[k]]);
        }
    }
    sym::check("C15/install_cmds", ok);
    let got = p.uninstall_cmds();
    let mut ok = got.len() == uninst.len();
    if ok {
        for k in 0..uninst.len() {
            ok = ok & std::ptr::eq(got[k], &es[uninst[k]]);
        }
    }
    sym::check("C15/uninstall_cmds", ok);
    // kind filters
    let strs = |idx: &Vec<usize>| -> Vec<Vec<u8>> {
        idx.iter()
            .map(|i| match &es[*i] {
                PlistEntry::PkgDep(s) | PlistEntry::BldDep(s) | PlistEntry::PkgCfl(s) | PlistEntry::Name(s) => s.as_bytes().to_vec(),
                PlistEntry::PkgDir(s) | PlistEntry::DirRm(s) | PlistEntry::Display(s) => s.as_bytes().to_vec(),
                _ => Vec::new(),
            })
            .collect()
    };
    let eq_s = |got: Vec<&str>, want: Vec<Vec<u8>>| -> bool {
        let mut ok = got.len() == want.len();
        if ok {
            for k in 0..want.len() {
                ok = ok & (got[k].as_bytes() == &want[k][..]);
            }
        }
        ok
    };
    let eq_o = |got: Vec<&OsStr>, want: Vec<Vec<u8>>| -> bool {
        let mut ok = got.len() == want.len();
        if ok {
            for k in 0..want.len() {
                ok = ok & (got[k].as_bytes() == &want[k][..]);
            }
        }
        ok
    };
    sym::check("C15/depends", eq_s(p.depends(), strs(&deps)));
    sym::check("C15/build_depends", eq_s(p.build_depends(), strs(&blds)));
    sym::check("C15/conflicts", eq_s(p.conflicts(), strs(&cfls)));
    sym::check("C15/pkgdirs", eq_o(p.pkgdirs(), strs(&dirs)));
    sym::check("C15/pkgrmdirs", eq_o(p.pkgrmdirs(), strs(&rmdirs)));
    let want_name: Option<Vec<u8>> = name.map(|i| strs(&vec![i])[0].clone());
    sym::check("C15/pkgname", p.pkgname().map(|s| s.as_bytes().to_vec()) == want_name);
    let want_disp: Option<Vec<u8>> = display.map(|i| strs(&vec![i])[0].clone());
    sym::check("C15/display", p.display().map(|s| s.as_bytes().to_vec()) == want_disp);
    sym::check("C15/is_preserve", p.is_preserve() == preserve);
}

fn build(nlines: usize, menu: &[usize]) -> Option<Plist> {
    build_tagged(nlines, menu, 0)
}

/// `tags` = 0: every line carries its own position as argument suffix (all lines distinct); otherwise the suffix is
/// one of `tags` values chosen per line, so that lines may repeat verbatim
fn build_tagged(nlines: usize, menu: &[usize], tags: usize) -> Option<Plist> {
    let mut text: Vec<u8> = Vec::new();
    let k = sym::choose("nlines", nlines + 1);
    let mut i = 0;
    while i < k {
        let kind = menu[sym::choose("kind", menu.len())];
        let t = if tags == 0 { i } else { sym::choose("tag", tags) };
        text.extend_from_slice(&line(kind, t));
        text.push(b'\n');
        i += 1;
    }
    Plist::from_bytes(&text).ok()
}

/// all 20 line kinds, short lists
pub fn h_all_kinds() {
    let all: Vec<usize> = (0..20).collect();
    match build(sym::bound(3, 4), &all) {
        Some(p) => check_views(&p),
        None => sym::check("C15/parses", false),
    }
}

/// file / @ignore / @cwd interplay in longer lists
pub fn h_files() {
    match build(sym::bound(6, 7), &[0, 1, 2, 3, 5]) {
        Some(p) => check_views(&p),
        None => sym::check("C15/parses", false),
    }
}

/// repeated lines: the same file, dependency, conflict, directory, name or display line may occur several times
pub fn h_repeats() {
    match build_tagged(sym::bound(3, 4), &[0, 1, 10, 11, 12, 13, 14, 15, 16], 2) {
        Some(p) => {
            sym::cover("repeated-dep", p.depends().len() > 1 && p.depends()[0] == p.depends()[1]);
            check_views(&p)
        }
        None => sym::check("C15/parses", false),
    }
}
