//! Mounted as `crate::pattern::verif_in`.
use super::*;

/// the same compiled pattern with the first-two-characters shortcut switched off
pub fn without_shortcut(p: &Pattern) -> Pattern {
    let mut q = p.clone();
    q.likely = true;
    q
}
/// 0 alternate, 1 dewey, 2 glob, 3 simple
pub fn kind(p: &Pattern) -> usize {
    match p.matchtype {
        PatternType::Alternate => 0,
        PatternType::Dewey => 1,
        PatternType::Glob => 2,
        PatternType::Simple => 3,
    }
}
