//! C03 Version order is a total preorder; the four operators are mutually consistent.
use super::{c01, spec, sym};
use crate::dewey::{dewey_cmp, verif_in, DeweyOp, DeweyVersion};

fn any_ver(tag: &str, maxlen: usize) -> DeweyVersion {
    let n = sym::choose(tag, maxlen + 1);
    let mut v = Vec::new();
    let mut i = 0;
    while i < n {
        v.push(sym::any_i64(tag));
        i += 1;
    }
    verif_in::make(v, sym::any_i64(tag))
}

/// Laws on `dewey_cmp` for arbitrary component vectors (every tokeniser output).
pub fn h_laws2() {
    let l = sym::bound(4, 6);
    let a = any_ver("a", l);
    let b = any_ver("b", l);
    let lt = dewey_cmp(&a, &DeweyOp::LT, &b);
    let gt = dewey_cmp(&a, &DeweyOp::GT, &b);
    let le = dewey_cmp(&a, &DeweyOp::LE, &b);
    let ge = dewey_cmp(&a, &DeweyOp::GE, &b);
    let eqv = le & ge;
    let one = (lt as u8) + (gt as u8) + (eqv as u8);
    sym::cover("lt", lt);
    sym::cover("gt", gt);
    sym::cover("eq", eqv);
    sym::check("C03/exactly-one", one == 1);
    sym::check("C03/le-is-not-gt", le == !gt);
    sym::check("C03/ge-is-not-lt", ge == !lt);
    // same verdict whichever side each version is written on
    sym::check("C03/swap-gt", gt == dewey_cmp(&b, &DeweyOp::LT, &a));
    sym::check("C03/swap-lt", lt == dewey_cmp(&b, &DeweyOp::GT, &a));
    sym::check("C03/swap-ge", ge == dewey_cmp(&b, &DeweyOp::LE, &a));
    sym::check("C03/swap-le", le == dewey_cmp(&b, &DeweyOp::GE, &a));
    sym::check("C03/refl-le", dewey_cmp(&a, &DeweyOp::LE, &a));
    sym::check("C03/refl-ge", dewey_cmp(&a, &DeweyOp::GE, &a));
}

pub fn h_trans() {
    let l = sym::bound(3, 4);
    let a = any_ver("a", l);
    let b = any_ver("b", l);
    let c = any_ver("c", l);
    let ab = dewey_cmp(&a, &DeweyOp::LE, &b);
    let bc = dewey_cmp(&b, &DeweyOp::LE, &c);
    let ac = dewey_cmp(&a, &DeweyOp::LE, &c);
    sym::cover("chain", ab & bc);
    sym::check("C03/transitive", !(ab & bc) | ac);
}

fn clean(s: &str) -> bool {
    // a leading '=' would merge with the operator, '<' '>' '-' '{' '}' change the pattern structure
    let mut ok = s.as_bytes().is_empty() || s.as_bytes()[0] != b'=';
    for b in s.as_bytes() {
        ok = ok & (*b != b'<') & (*b != b'>') & (*b != b'-') & (*b != b'{') & (*b != b'}');
    }
    ok
}

fn m(op: usize, bound: &str, ver: &str) -> bool {
    let p = crate::Pattern::new(&format!("p{}{}", c01::op_str(op), bound)).unwrap();
    p.matches(&format!("p-{}", ver))
}

/// The same laws through the public API, on arbitrary text (any tokenisation).
pub fn h_api_laws() {
    // two characters each in both tiers: a third character did not finish within 15 minutes on 16 cores (the laws on
    // longer versions are covered on the comparator itself by h_laws2 / h_trans and, through text, by h_two_bounds)
    let a = sym::any_str("a", "utf8", 0, 2);
    let b = sym::any_str("b", "utf8", 0, 2);
    sym::assume(clean(&a) & clean(&b));
    let lt = m(1, &b, &a);
    let gt = m(3, &b, &a);
    let le = m(0, &b, &a);
    let ge = m(2, &b, &a);
    let one = (lt as u8) + (gt as u8) + ((le & ge) as u8);
    sym::observe_bool("lt", lt);
    sym::observe_bool("gt", gt);
    sym::check("C03/api-exactly-one", one == 1);
    sym::check("C03/api-le-is-not-gt", le == !gt);
    sym::check("C03/api-ge-is-not-lt", ge == !lt);
    sym::check("C03/api-swap", (gt == m(1, &a, &b)) & (lt == m(3, &a, &b)) & (ge == m(0, &a, &b)) & (le == m(2, &a, &b)));
    sym::check("C03/api-refl", m(0, &a, &a) & m(2, &a, &a));
}

/// A two-bound pattern matches exactly when both single-bound halves match.
pub fn h_two_bounds() {
    // thorough: the lower bound and the package version grow, the upper bound stays at one character
    let n = sym::bound(1, 2);
    let v1 = sym::any_str("v1", "ascii", 0, n);
    let v2 = sym::any_str("v2", "ascii", 0, 1);
    let w = sym::any_str("w", "ascii", 0, n);
    sym::assume(clean(&v1) & clean(&v2) & clean(&w));
    let o1 = 2 + sym::choose("o1", 2); // >= >
    let o2 = sym::choose("o2", 2); // <= <
    let both = crate::Pattern::new(&format!("p{}{}{}{}", c01::op_str(o1), v1, c01::op_str(o2), v2)).unwrap();
    let got = both.matches(&format!("p-{}", w));
    let want = m(o1, &v1, &w) & m(o2, &v2, &w);
    sym::cover("both-hold", got);
    sym::check("C03/two-bounds", got == want);
}
