#!/bin/sh
# ./seedtest.sh <id> <PROP>... : run checks against /repo + seeded/<id>/patch.diff (a breaking change) or
# refactors/<id>/patch.diff (a behaviour-preserving refactoring) in a scratch worktree
set -e
id=$1; shift
wt=/var/tmp/seedrun-$id-$$
git -C /repo worktree add -q --detach $wt HEAD
if [ -f /verif/seeded/$id/patch.diff ]; then git -C $wt apply /verif/seeded/$id/patch.diff; else git -C $wt apply /verif/refactors/$id/patch.diff; fi
out=/var/tmp/seedrun-$id-$$-out; mkdir -p $out
set +e
VERIF_REPO=$wt VERIF_EVIDENCE_DIR=$out VERIF_REPLAY_DIR=$out /verif/check "$@" > $out/log 2>&1
rc=$?
set -e
cp $out/log /tmp/seedlog-$id.txt
grep -E "^VIOLATION|^KNOWN|\[C[0-9]+\] tier|INCONCLUSIVE|violation " $out/log | cut -c1-400
echo "seed $id props $* -> exit $rc"
git -C /repo worktree remove --force $wt
rm -rf $out
