#!/bin/sh
# verify_seed.sh <id>: confirm a seeded change in a fresh worktree (no stash)
id=$1
wt=/var/tmp/vw-$id; td=/var/tmp/vw-$id-target
rm -rf $wt $td; git -C /repo worktree prune
git -C /repo worktree add -q --detach $wt HEAD || exit 9
cd $wt
export CARGO_NET_OFFLINE=true
git apply /tmp/seedout/$id/patch.diff || { echo "$id: patch does not apply"; exit 9; }
cargo test --offline --no-fail-fast --target-dir $td > /tmp/vw-$id-suite.log 2>&1; rc_suite=$?
cp /tmp/seedout/$id/seed_demo.rs tests/seed_demo.rs
cargo test --offline --target-dir $td --test seed_demo > /tmp/vw-$id-with.log 2>&1; rc_with=$?
git apply -R /tmp/seedout/$id/patch.diff
cargo test --offline --target-dir $td --test seed_demo > /tmp/vw-$id-without.log 2>&1; rc_without=$?
echo "$id: suite_with_patch=$rc_suite demo_with_patch=$rc_with demo_without=$rc_without  ($(grep -h 'test result' /tmp/vw-$id-suite.log | awk '{print $4}' | tr '\n' '/'))"
cd /; git -C /repo worktree remove --force $wt; rm -rf $td
