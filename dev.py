"""dev runner: python3-vt dev.py <harness> [maxpaths]  -- single process, verbose"""
import sys, time, os, traceback
from mirsym import driver
from mirsym.program import Program
from mirsym.engine import Engine
from mirsym.values import ModelGap

base = os.environ.get('DEV_BASE')
if not base or not os.path.exists(base + '/lib.mir') or os.environ.get('REDUMP'):
    if base and os.path.exists(base):
        import shutil; shutil.rmtree(base)
    base, repo = driver.prepare_scratch('dev', base)
    mir, t = driver.dump_mir(base, repo)
    print('dumped in %.1fs' % t, base)
repo = base + '/repo'
prog = Program(open(base + '/lib.mir').read(), repo, extra_src=[base + '/harness'])
E = Engine(prog, kf_listed=set(os.environ.get('KF', '').split(',')) - {''})
h = sys.argv[1]
maxp = int(sys.argv[2]) if len(sys.argv) > 2 else 100000
entry = driver.find_harness(prog, h)
stack = [[c == '1' for c in os.environ['PREFIX']]] if os.environ.get('PREFIX') else [[]]
n = 0; viol = []; gaps = {}; panics = {}; covers = set(); t0 = time.time()
while stack and n < maxp:
    p = stack.pop()
    try:
        r = E.run_path(entry, p)
    except ModelGap as g:
        gaps.setdefault(str(g), p); stack.extend(E.pending); n += 1; continue
    except Exception:
        traceback.print_exc(); print('prefix', p); break
    stack.extend(E.pending); n += 1
    viol += E.violations
    covers.update(r.covers)
    if r.outcome == 'panic': panics.setdefault(r.msg, r.inputs)
    if os.environ.get('V'): print(r.outcome, r.msg, r.inputs, r.obs)
print(f'paths {n} left {len(stack)} violations {len(viol)} time {time.time()-t0:.1f}s queries {E.nqueries} qtime {E.qtime:.1f}s covers {sorted(covers)}')
for g, p in list(gaps.items())[:10]: print('GAP', g, ('GAPDEC ' + ''.join('1' if d else '0' for d in p)) if os.environ.get('DEC') else '')
for m, i in list(panics.items())[:10]: print('PANIC', m, i)
for v in viol[:10]: print('VIOL', v[0], v[1], 'DEC', ''.join('1' if d else '0' for d in v[2]) if os.environ.get('DEC') else '')
