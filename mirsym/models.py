"""Semantic models of the std / dependency calls the crate makes, and the sym:: intrinsics.

Models are keyed by short names (see program.callinfo): 'Vec::push', 'str::len',
'<String as Deref>::deref', 'Iterator::next' ...  Each model is `f(E, ci, *args)`.
Everything here is part of the claim's environment and is listed in the evidence.
"""
import re
import z3

from .values import *
from .program import callinfo, strip_generics, split_path, type_last, strip_refs, generic_args

MODELS = {}
PRIORITY = {}      # models that take precedence over a crate body with the same key
INTRINSICS = {}
CONSTS = {}


def model(*keys):
    def deco(f):
        for k in keys:
            MODELS[k] = f
        return f
    return deco


def intrinsic(name):
    def deco(f):
        INTRINSICS[name] = f
        return f
    return deco


def bool_to_int(b):
    if isinstance(b, bool):
        return I('u8', int(b))
    return I('u8', z3.If(b, z3.BitVecVal(1, 8), z3.BitVecVal(0, 8)))


# ---------------------------------------------------------------------------- helpers
def as_slice(x, kind=None):
    """any string / vec / slice / array-ish value (possibly behind refs) -> Slice"""
    x = deref(x)
    if isinstance(x, Slice):
        return x if kind is None or kind == x.kind else Slice(x.buf, x.a, x.b, kind)
    if isinstance(x, VecV):
        return x.view(kind)
    if isinstance(x, Agg) and x.ty in ('array', 'tuple'):
        return Slice(x.fields, 0, len(x.fields), kind or 'slice')
    if isinstance(x, Agg) and x.ty == 'Box':
        return as_slice(x.fields[0], kind)
    raise ModelGap('as_slice of ' + repr(x))


def items_of(x):
    return as_slice(x).items()


def pystr(x):
    """concrete python bytes of a string-ish value (for tags, alphabets, ...)"""
    bs = conc_bytes(items_of(x))
    if bs is None:
        raise ModelGap('expected concrete string')
    return bs


def mkstring(items, kind='String'):
    return VecV(list(items), kind)


def lit(s):
    return [I('u8', b) for b in (s.encode() if isinstance(s, str) else s)]


def bytes_eq(a, b):
    """equality of two byte (scalar) lists -> bool expr (no fork)"""
    if len(a) != len(b):
        return False
    cs = []
    for x, y in zip(a, b):
        c = i_eq(x, y)
        if c is False:
            return False
        cs.append(c)
    return b_and(*cs)


def bytes_lt(a, b):
    """lexicographic a < b over unsigned scalars -> bool expr (no fork)"""
    # build from the end
    n = min(len(a), len(b))
    res = len(a) < len(b)
    for i in range(n - 1, -1, -1):
        x, y = a[i], b[i]
        lt = i_cmp('Lt', x, y)
        eq = i_eq(x, y)
        res = b_or(lt, b_and(eq, res))
    return res


def starts_with(hay, needle):
    if len(hay) < len(needle):
        return False
    return bytes_eq(hay[:len(needle)], needle)


def ends_with(hay, needle):
    if len(hay) < len(needle):
        return False
    return bytes_eq(hay[len(hay) - len(needle):], needle)


# ---- UTF-8 -------------------------------------------------------------------------------
def decode_char(E, buf, pos):
    """decode the char starting at buf[pos] of a *valid* UTF-8 buffer -> (I char, nbytes)"""
    b0 = buf[pos]
    if b0.conc():
        v = b0.v
        if v < 0x80:
            return I('char', v), 1
        n = 2 if v < 0xE0 else (3 if v < 0xF0 else 4)
    else:
        if E.branch(z3.ULT(b0.v, 0x80)):
            return I('char', z3.ZeroExt(24, b0.v)), 1
        if E.branch(z3.ULT(b0.v, 0xE0)):
            n = 2
        elif E.branch(z3.ULT(b0.v, 0xF0)):
            n = 3
        else:
            n = 4
    if pos + n > len(buf):
        raise ModelGap('decode_char: truncated UTF-8 (invalid str invariant)')
    bs = buf[pos:pos + n]
    if all(b.conc() for b in bs):
        c = bytes(b.v for b in bs).decode('utf-8', 'surrogatepass')
        return I('char', ord(c)), n
    z = [z3.ZeroExt(24, b.z()) for b in bs]
    if n == 2:
        cp = ((z[0] & 0x1F) << 6) | (z[1] & 0x3F)
    elif n == 3:
        cp = ((z[0] & 0x0F) << 12) | ((z[1] & 0x3F) << 6) | (z[2] & 0x3F)
    else:
        cp = ((z[0] & 0x07) << 18) | ((z[1] & 0x3F) << 12) | ((z[2] & 0x3F) << 6) | (z[3] & 0x3F)
    return from_z('char', cp), n


def char_len_utf8(E, c):
    if c.conc():
        return len(chr(c.v).encode('utf-8', 'surrogatepass'))
    if E.branch(z3.ULT(c.v, 0x80)):
        return 1
    if E.branch(z3.ULT(c.v, 0x800)):
        return 2
    if E.branch(z3.ULT(c.v, 0x10000)):
        return 3
    return 4


def encode_char(E, c):
    if c.conc():
        return lit(chr(c.v).encode('utf-8', 'surrogatepass'))
    n = char_len_utf8(E, c)
    v = c.v

    def ex(hi, lo):
        return z3.Extract(7, 0, z3.LShR(v, lo)) & ((1 << (hi - lo + 1)) - 1)
    if n == 1:
        return [from_z('u8', z3.Extract(7, 0, v))]
    if n == 2:
        return [from_z('u8', 0xC0 | ex(10, 6)), from_z('u8', 0x80 | ex(5, 0))]
    if n == 3:
        return [from_z('u8', 0xE0 | ex(15, 12)), from_z('u8', 0x80 | ex(11, 6)), from_z('u8', 0x80 | ex(5, 0))]
    return [from_z('u8', 0xF0 | ex(20, 18)), from_z('u8', 0x80 | ex(17, 12)), from_z('u8', 0x80 | ex(11, 6)),
            from_z('u8', 0x80 | ex(5, 0))]


def is_char_boundary(E, s, i):
    """forks; s: Slice of a valid str, i: python int offset within s"""
    if i == 0 or i == len(s):
        return True
    if i > len(s):
        return False
    b = s.buf[s.a + i]
    if b.conc():
        return (b.v & 0xC0) != 0x80
    return E.branch((b.v & 0xC0) != 0x80)


def utf8_valid_prefix(E, items):
    """std::str::from_utf8 semantics on a scalar list. forks.
    -> (True, None) or (False, (valid_up_to, error_len|None))"""
    i = 0
    n = len(items)

    def rng(b, lo, hi):
        return E.branch(in_range(b, lo, hi))
    while i < n:
        b0 = items[i]
        if rng(b0, 0x00, 0x7F):
            i += 1
            continue
        if rng(b0, 0xC2, 0xDF):
            need = [(0x80, 0xBF)]
        elif rng(b0, 0xE0, 0xE0):
            need = [(0xA0, 0xBF), (0x80, 0xBF)]
        elif rng(b0, 0xE1, 0xEC):
            need = [(0x80, 0xBF), (0x80, 0xBF)]
        elif rng(b0, 0xED, 0xED):
            need = [(0x80, 0x9F), (0x80, 0xBF)]
        elif rng(b0, 0xEE, 0xEF):
            need = [(0x80, 0xBF), (0x80, 0xBF)]
        elif rng(b0, 0xF0, 0xF0):
            need = [(0x90, 0xBF), (0x80, 0xBF), (0x80, 0xBF)]
        elif rng(b0, 0xF1, 0xF3):
            need = [(0x80, 0xBF), (0x80, 0xBF), (0x80, 0xBF)]
        elif rng(b0, 0xF4, 0xF4):
            need = [(0x80, 0x8F), (0x80, 0xBF), (0x80, 0xBF)]
        else:
            return False, (i, 1)
        for k, (lo, hi) in enumerate(need):
            if i + 1 + k >= n:
                return False, (i, None)
            if not rng(items[i + 1 + k], lo, hi):
                return False, (i, 1 + k)
        i += 1 + len(need)
    return True, None


WHITE_SPACE = [(0x09, 0x0D), (0x20, 0x20), (0x85, 0x85), (0xA0, 0xA0), (0x1680, 0x1680), (0x2000, 0x200A),
               (0x2028, 0x2029), (0x202F, 0x202F), (0x205F, 0x205F), (0x3000, 0x3000)]


def char_is_whitespace(c):
    if c.conc():
        return any(lo <= c.v <= hi for lo, hi in WHITE_SPACE)
    return b_or(*[in_range(c, lo, hi) for lo, hi in WHITE_SPACE])


def ascii_ws(c):
    """u8/char is_ascii_whitespace: space, \\t, \\n, \\x0c, \\r"""
    if c.conc():
        return c.v in (0x20, 0x09, 0x0A, 0x0C, 0x0D)
    return b_or(*[i_eq(c, I(c.t, v)) for v in (0x20, 0x09, 0x0A, 0x0C, 0x0D)])


# ---------------------------------------------------------------------------- intrinsics
def _tag(x):
    return pystr(x).decode()


@intrinsic('any_u8')
def _any_u8(E, ci, tag):
    t = _tag(tag)
    E.bounds_seen.add(f'any_u8({t}: all 256 values)')
    v = I('u8', E.fresh(t, 8))
    E.inputs.append(('u8', t, v))
    return v


@intrinsic('any_bool')
def _any_bool(E, ci, tag):
    t = _tag(tag)
    E.bounds_seen.add(f'any_bool({t})')
    v = E.fresh_bool(t)
    E.inputs.append(('bool', t, v))
    return v


@intrinsic('any_i64')
def _any_i64(E, ci, tag):
    t = _tag(tag)
    E.bounds_seen.add(f'any_i64({t}: all 2^64 values)')
    v = I('i64', E.fresh(t, 64))
    E.inputs.append(('i64', t, v))
    return v


@intrinsic('any_u64')
def _any_u64(E, ci, tag):
    t = _tag(tag)
    E.bounds_seen.add(f'any_u64({t}: all 2^64 values)')
    v = I('u64', E.fresh(t, 64))
    E.inputs.append(('u64', t, v))
    return v


@intrinsic('choose')
def _choose(E, ci, tag, n):
    t = _tag(tag)
    n = n.v
    E.bounds_seen.add(f'choose({t}: {n} alternatives)')
    v = 0
    while v < n - 1:
        if E.branch(E.fresh_bool(f'{t}=={v}')):
            break
        v += 1
    E.inputs.append(('choose', t, v))
    return USZ(v)


def parse_alphabet(spec):
    """-> list of unit classes; each class is ('set', [byte values]) for single-byte units,
    ('lit', bytes) for a fixed multi-byte unit, or ('utf8', n) for any n-byte scalar value."""
    if spec == 'ascii':
        return [('set', list(range(1, 128)))]
    if spec == 'bytes':
        return [('set', list(range(0, 256)))]
    if spec == 'bytes-nonl':
        return [('set', [b for b in range(256) if b != 10])]
    if spec == 'ascii-nonl':
        return [('set', [b for b in range(1, 128) if b not in (10, 13)])]
    if spec == 'utf8':
        return [('set', list(range(1, 128))), ('utf8', 2), ('utf8', 3), ('utf8', 4)]
    if spec == 'utf8-nonl':
        return [('set', [b for b in range(1, 128) if b not in (10, 13)]), ('utf8', 2), ('utf8', 3), ('utf8', 4)]
    if spec.startswith('set:'):
        singles = []
        out = []
        for ch in spec[4:]:
            e = ch.encode()
            if len(e) == 1:
                singles.append(e[0])
            else:
                out.append(('lit', e))
        if singles:
            out.insert(0, ('set', singles))
        return out
    if spec.startswith('hex:'):     # hex:30-39,61,c3a9  (ranges of single bytes, or literal multi-byte units)
        singles = []
        out = []
        for part in spec[4:].split(','):
            if '-' in part:
                lo, hi = part.split('-')
                singles += list(range(int(lo, 16), int(hi, 16) + 1))
            elif len(part) == 2:
                singles.append(int(part, 16))
            else:
                out.append(('lit', bytes.fromhex(part)))
        if singles:
            out.insert(0, ('set', singles))
        return out
    raise ModelGap('alphabet ' + spec)


def set_constraint(b, vals):
    vals = sorted(set(vals))
    if len(vals) == 256:
        return True
    # compress into ranges
    rs = []
    lo = prev = vals[0]
    for v in vals[1:]:
        if v == prev + 1:
            prev = v
            continue
        rs.append((lo, prev))
        lo = prev = v
    rs.append((lo, prev))
    return b_or(*[(b == lo) if lo == hi else z3.And(z3.UGE(b, lo), z3.ULE(b, hi)) for lo, hi in rs])


def utf8_constraint(bs):
    n = len(bs)

    def r(b, lo, hi):
        return z3.And(z3.UGE(b, lo), z3.ULE(b, hi))
    c = r
    if n == 2:
        return z3.And(c(bs[0], 0xC2, 0xDF), c(bs[1], 0x80, 0xBF))
    if n == 3:
        return z3.And(c(bs[2], 0x80, 0xBF), z3.Or(
            z3.And(bs[0] == 0xE0, c(bs[1], 0xA0, 0xBF)),
            z3.And(c(bs[0], 0xE1, 0xEC), c(bs[1], 0x80, 0xBF)),
            z3.And(bs[0] == 0xED, c(bs[1], 0x80, 0x9F)),
            z3.And(c(bs[0], 0xEE, 0xEF), c(bs[1], 0x80, 0xBF))))
    return z3.And(c(bs[2], 0x80, 0xBF), c(bs[3], 0x80, 0xBF), z3.Or(
        z3.And(bs[0] == 0xF0, c(bs[1], 0x90, 0xBF)),
        z3.And(c(bs[0], 0xF1, 0xF3), c(bs[1], 0x80, 0xBF)),
        z3.And(bs[0] == 0xF4, c(bs[1], 0x80, 0x8F))))


def gen_units(E, t, alpha, lo, hi):
    classes = parse_alphabet(alpha)
    out = []
    n = 0
    while n < hi:
        if n >= lo and not E.branch(E.fresh_bool(f'{t}.len>{n}')):
            break
        # which class is unit n
        ci_ = 0
        while ci_ < len(classes) - 1:
            if E.branch(E.fresh_bool(f'{t}[{n}].class=={ci_}')):
                break
            ci_ += 1
        cl = classes[ci_]
        if cl[0] == 'set':
            if len(cl[1]) == 1:
                out.append(I('u8', cl[1][0]))
            else:
                b = E.fresh(f'{t}[{n}]', 8)
                c = set_constraint(b, cl[1])
                if c is not True:
                    E.solver.add(c)
                    E.pc.append(c)
                out.append(I('u8', b))
        elif cl[0] == 'lit':
            out += lit(cl[1])
        else:
            bs = [E.fresh(f'{t}[{n}].{k}', 8) for k in range(cl[1])]
            c = utf8_constraint(bs)
            E.solver.add(c)
            E.pc.append(c)
            out += [I('u8', b) for b in bs]
        n += 1
    E.model = None
    return out


@intrinsic('any_bytes')
def _any_bytes(E, ci, tag, alpha, lo, hi):
    t = _tag(tag)
    E.bounds_seen.add(f'any_bytes({t}: {lo.v}..{hi.v} units of "{_tag(alpha)}")')
    items = gen_units(E, t, _tag(alpha), lo.v, hi.v)
    E.inputs.append(('bytes', t, list(items)))
    return VecV(items, 'Vec')


@intrinsic('any_str')
def _any_str(E, ci, tag, alpha, lo, hi):
    t = _tag(tag)
    E.bounds_seen.add(f'any_str({t}: {lo.v}..{hi.v} units of "{_tag(alpha)}")')
    items = gen_units(E, t, _tag(alpha), lo.v, hi.v)
    E.inputs.append(('bytes', t, list(items)))
    return VecV(items, 'String')


@intrinsic('assume')
def _assume(E, ci, c):
    E.assume(c)
    return UNIT


@intrinsic('check')
def _check(E, ci, id_, cond):
    cid = _tag(id_)
    E.path_checks.append(cid)
    if cond is True:
        return UNIT
    if cond is False:
        E.need_model()
        E.violations.append((cid, E.concrete_inputs(), list(E.taken)))
        raise PathAbort()
    cond = z3.simplify(cond)
    if z3.is_true(cond):
        return UNIT
    if E._check(z3.Not(cond)):
        m = E.last_retry_model or E.solver.model()
        E.violations.append((cid, E.concrete_inputs(m), list(E.taken)))
    try:
        E.assume(cond)
    except Infeasible:
        raise PathAbort()
    return UNIT


@intrinsic('cover')
def _cover(E, ci, id_, cond):
    cid = _tag(id_)
    if cond is True:
        E.path_covers.append(cid)
    elif cond is not False:
        if E._check(cond):
            E.path_covers.append(cid)
    return UNIT


@intrinsic('known_finding')
def _known_finding(E, ci, role, cond):
    r = _tag(role)
    if cond is True:
        E.need_model()
        E.path_kf.append((r, E.concrete_inputs()))
    elif cond is not False:
        if E._check(cond):
            E.path_kf.append((r, E.concrete_inputs(E.last_retry_model or E.solver.model())))
    return UNIT


@intrinsic('kf_listed')
def _kf_listed(E, ci, role):
    r = _tag(role)
    v = r in E.kf_listed
    E.inputs.append(('kf', r, 1 if v else 0))
    return v


def _observe(E, ci, tag, v):
    t = _tag(tag)
    v = deref(v)
    if isinstance(v, (Slice, VecV)):
        v = list(items_of(v))
    E.obs.append((t, v))
    return UNIT


for _n in ('observe_bool', 'observe_i64', 'observe_u64', 'observe_usize', 'observe_bytes', 'observe_str'):
    INTRINSICS[_n] = _observe


@intrinsic('bound')
def _bound(E, ci, q, t):
    v = t.v if getattr(E, 'tier', 'quick') == 'thorough' else q.v
    import os
    v = max(0, v + int(os.environ.get('BOUND_DELTA', '0')))    # development aid only
    E.inputs.append(('bound', 'b', v))
    return USZ(v)


@intrinsic('digest_hex')
def _digest_hex(E, ci, alg, data):
    from .models_env import digest_bytes, ALG_BY_INDEX
    out = digest_bytes(E, ALG_BY_INDEX[alg.v], list(items_of(data)))
    hexs = []
    for b in out:
        if b.conc():
            hexs += lit('%02x' % b.v)
            continue
        for sh in (4, 0):
            nib8 = z3.ZeroExt(4, z3.Extract(3, 0, z3.LShR(b.v, sh)))
            hexs.append(from_z('u8', z3.If(z3.ULT(nib8, 10), nib8 + 48, nib8 + 87)))
    return VecV(hexs, 'String')


@intrinsic('hex')
def _hexi(E, ci, b):
    raise ModelGap('sym::hex is native-only')


from . import models_core      # noqa: E402,F401  (registers models)
from . import models_iter      # noqa: E402,F401
from . import models_fmt       # noqa: E402,F401
from . import models_io        # noqa: E402,F401
from .models_core import fallback   # noqa: E402,F401
