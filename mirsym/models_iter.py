"""Iterator models: concrete-structure iterators and lazy adaptors (closures are crate MIR, executed)."""
import z3

from .values import *
from .program import type_last, generic_args, strip_generics
from .models import MODELS, model, as_slice, items_of, decode_char, encode_char


class Iter(Obj):
    kind = 'iter'

    def __init__(self):
        pass

    def next(self, E):
        raise NotImplementedError

    def next_back(self, E):
        raise ModelGap('next_back on ' + type(self).__name__)

    def __repr__(self):
        return f'<{type(self).__name__}>'


class ListIter(Iter):
    def __init__(self, items):
        self.items = list(items)
        self.i = 0
        self.j = len(self.items)

    def next(self, E):
        if self.i < self.j:
            v = self.items[self.i]
            self.i += 1
            return some(v)
        return none()

    def next_back(self, E):
        if self.i < self.j:
            self.j -= 1
            return some(self.items[self.j])
        return none()

    def clone(self, E):
        c = ListIter(self.items)
        c.i, c.j = self.i, self.j
        return c

    def remaining(self):
        return self.items[self.i:self.j]


class RangeIter(Iter):
    def __init__(self, lo, hi, t):
        self.lo, self.hi, self.t = lo, hi, t

    def next(self, E):
        if self.lo < self.hi:
            v = I(self.t, self.lo)
            self.lo += 1
            return some(v)
        return none()

    def next_back(self, E):
        if self.lo < self.hi:
            self.hi -= 1
            return some(I(self.t, self.hi))
        return none()


class CharsIter(Iter):
    def __init__(self, s, indices=False):
        self.s = s
        self.pos = s.a
        self.end = s.b
        self.indices = indices

    def next(self, E):
        if self.pos >= self.end:
            return none()
        c, n = decode_char(E, self.s.buf, self.pos)
        off = self.pos - self.s.a
        self.pos += n
        return some(Agg('tuple', 0, [USZ(off), c])) if self.indices else some(c)

    def next_back(self, E):
        if self.pos >= self.end:
            return none()
        # find start of last char: walk back over continuation bytes
        p = self.end - 1
        while p > self.pos:
            b = self.s.buf[p]
            cont = ((b.v & 0xC0) == 0x80) if b.conc() else E.branch((b.v & 0xC0) == 0x80)
            if not cont:
                break
            p -= 1
        c, n = decode_char(E, self.s.buf, p)
        self.end = p
        return some(Agg('tuple', 0, [USZ(p - self.s.a), c])) if self.indices else some(c)

    def clone(self, E):
        c = CharsIter(self.s, self.indices)
        c.pos, c.end = self.pos, self.end
        return c

    def as_str(self):
        return Slice(self.s.buf, self.pos, self.end, 'str')


class Adapter(Iter):
    def __init__(self, kind, inner, f=None, **kw):
        self.akind = kind
        self.inner = inner
        self.f = f
        self.done = False
        self.n = 0
        self.__dict__.update(kw)

    def __repr__(self):
        return f'<{self.akind} {self.inner!r}>'

    def clone(self, E):
        c = Adapter(self.akind, self.inner.clone(E), self.f)
        c.__dict__.update({k: v for k, v in self.__dict__.items() if k not in ('inner',)})
        c.inner = self.inner.clone(E)
        return c

    def _pull(self, E, back):
        return self.inner.next_back(E) if back else self.inner.next(E)

    def next(self, E, back=False):
        k = self.akind
        if k == 'map':
            x = self._pull(E, back)
            return some(E.call_value(self.f, [x.fields[0]])) if x.variant else x
        if k == 'filter':
            while True:
                x = self._pull(E, back)
                if not x.variant:
                    return x
                cell = [x.fields[0]]
                if E.branch(E.call_value(self.f, [Ref(cell, 0)])):
                    return some(cell[0])
        if k == 'filter_map':
            while True:
                x = self._pull(E, back)
                if not x.variant:
                    return x
                r = E.call_value(self.f, [x.fields[0]])
                if r.variant:
                    return r
        if k == 'take_while':
            if self.done:
                return none()
            x = self._pull(E, back)
            if not x.variant:
                return x
            cell = [x.fields[0]]
            if E.branch(E.call_value(self.f, [Ref(cell, 0)])):
                return some(cell[0])
            self.done = True
            return none()
        if k == 'skip_while':
            while True:
                x = self._pull(E, back)
                if not x.variant or self.done:
                    return x
                cell = [x.fields[0]]
                if not E.branch(E.call_value(self.f, [Ref(cell, 0)])):
                    self.done = True
                    return some(cell[0])
        if k == 'map_while':
            if self.done:
                return none()
            x = self._pull(E, back)
            if not x.variant:
                return x
            r = E.call_value(self.f, [x.fields[0]])
            if not r.variant:
                self.done = True
            return r
        if k == 'enumerate':
            x = self._pull(E, back)
            if not x.variant:
                return x
            i = self.n
            self.n += 1
            return some(Agg('tuple', 0, [USZ(i), x.fields[0]]))
        if k == 'rev':
            return self.inner.next_back(E) if not back else self.inner.next(E)
        if k == 'take':
            if self.n >= self.limit:
                return none()
            self.n += 1
            return self._pull(E, back)
        if k == 'skip':
            while self.n < self.limit:
                self.n += 1
                x = self.inner.next(E)
                if not x.variant:
                    return x
            return self._pull(E, back)
        if k == 'cloned':
            x = self._pull(E, back)
            if not x.variant:
                return x
            from .models_core import clone_val
            return some(clone_val(E, deref(x.fields[0])))
        if k == 'peekable':
            if self.peeked is not None:
                x = self.peeked
                self.peeked = None
                return x
            return self.inner.next(E)
        if k == 'chain':
            if not self.done:
                x = self.inner.next(E)
                if x.variant:
                    return x
                self.done = True
            return self.second.next(E)
        if k == 'zip':
            a = self.inner.next(E)
            if not a.variant:
                return a
            b = self.second.next(E)
            if not b.variant:
                return b
            return some(Agg('tuple', 0, [a.fields[0], b.fields[0]]))
        if k == 'inspect':
            x = self._pull(E, back)
            if x.variant:
                E.call_value(self.f, [Ref(x.fields, 0)])
            return x
        if k == 'flat_map' or k == 'flatten':
            while True:
                if self.cur is not None:
                    x = self.cur.next(E)
                    if x.variant:
                        return x
                    self.cur = None
                o = self.inner.next(E)
                if not o.variant:
                    return o
                v = o.fields[0]
                if k == 'flat_map':
                    v = E.call_value(self.f, [v])
                self.cur = iter_of(E, v)
        if k == 'fuse':
            return self._pull(E, back)
        if k == 'step_by':
            x = self.inner.next(E)
            for _ in range(self.limit - 1):
                if not self.inner.next(E).variant:
                    break
            return x
        raise ModelGap('adapter ' + k)

    def next_back(self, E):
        if self.akind in ('map', 'filter', 'filter_map', 'rev', 'cloned', 'inspect'):
            return self.next(E, back=True)
        if self.akind == 'enumerate':
            raise ModelGap('enumerate().rev()')
        raise ModelGap('next_back on adapter ' + self.akind)


def iter_of(E, v):
    """IntoIterator::into_iter on a value"""
    v0 = v
    v = deref(v)
    if isinstance(v, Iter):
        return v
    if isinstance(v, VecV):
        if isinstance(v0, Ref):       # &Vec / &mut Vec -> iter over refs
            return ListIter([Ref(v.buf, i) for i in range(len(v.buf))])
        return ListIter(v.buf)
    if isinstance(v, Slice):
        return ListIter([Ref(v.buf, v.a + i) for i in range(len(v))])
    if isinstance(v, Agg) and v.ty == 'array':
        if isinstance(v0, Ref):
            return ListIter([Ref(v.fields, i) for i in range(len(v.fields))])
        return ListIter(v.fields)
    if isinstance(v, Agg) and v.ty == 'Option':
        if isinstance(v0, Ref):
            return ListIter([Ref(v.fields, 0)] if v.variant else [])
        return ListIter(v.fields[:1] if v.variant else [])
    if isinstance(v, Agg) and v.ty in ('Range', 'RangeInclusive'):
        from .models_core import range_bounds
        lo, hi = range_bounds(E, v, None)
        return RangeIter(lo, hi, v.fields[0].t)
    if isinstance(v, MapV):
        from .models_io import map_iter
        return map_iter(E, v, by_ref=isinstance(v0, Ref))
    if isinstance(v, Obj) and hasattr(v, 'into_iter'):
        return v.into_iter(E)
    # a crate type implementing Iterator
    if isinstance(v, Agg):
        return CrateIter(v0 if isinstance(v0, Ref) else Ref([v], 0))
    raise ModelGap('into_iter of ' + repr(v))


class CrateIter(Iter):
    """a crate struct implementing Iterator (e.g. PkgDB)"""

    def __init__(self, ref):
        self.ref = ref

    def next(self, E):
        v = deref(self.ref)
        cands = E.prog.index.get((v.ty, 'Iterator', 'next'))
        if not cands:
            raise ModelGap('no Iterator impl for ' + v.ty)
        return E.call_fn(cands[0], [self.ref], None)


def drain_iter(E, it):
    while True:
        x = it.next(E)
        if not x.variant:
            return
        yield x.fields[0]


@model('IntoIterator::into_iter', 'Iterator::into_iter', 'Iterator::by_ref', 'Iterator::iter')
def _into_iter(E, ci, v):
    if ci.method == 'by_ref':
        return v
    d = deref(v)
    if isinstance(d, Agg) and (d.ty, 'Iterator', 'next') in E.prog.index:
        return v          # a crate type that is its own iterator
    return iter_of(E, v)


def _it(E, x):
    v = deref(x)
    if isinstance(v, Iter):
        return v
    return iter_of(E, x)


@model('Iterator::next')
def _next(E, ci, it):
    return _it(E, it).next(E)


@model('DoubleEndedIterator::next_back')
def _next_back(E, ci, it):
    return _it(E, it).next_back(E)


def _mk(kind):
    def f(E, ci, it, fn=None):
        return Adapter(kind, _it(E, it), fn)
    return f


for _k in ('map', 'filter', 'filter_map', 'take_while', 'skip_while', 'map_while', 'enumerate', 'rev', 'cloned',
           'inspect', 'fuse'):
    MODELS['Iterator::' + _k] = _mk(_k)
MODELS['Iterator::copied'] = _mk('cloned')


@model('Iterator::take')
def _take(E, ci, it, n):
    return Adapter('take', _it(E, it), limit=E.concretize(n))


@model('Iterator::skip')
def _skip(E, ci, it, n):
    return Adapter('skip', _it(E, it), limit=E.concretize(n))


@model('Iterator::step_by')
def _step_by(E, ci, it, n):
    return Adapter('step_by', _it(E, it), limit=E.concretize(n))


@model('Iterator::peekable')
def _peekable(E, ci, it):
    return Adapter('peekable', _it(E, it), peeked=None)


@model('Peekable::peek')
def _peek(E, ci, it):
    a = deref(it)
    if a.peeked is None:
        a.peeked = a.inner.next(E)
    return some(Ref(a.peeked.fields, 0)) if a.peeked.variant else none()


@model('Iterator::chain')
def _chain(E, ci, a, b):
    return Adapter('chain', _it(E, a), second=iter_of(E, b))


@model('Iterator::zip')
def _zip(E, ci, a, b):
    return Adapter('zip', _it(E, a), second=iter_of(E, b))


@model('Iterator::flat_map')
def _flat_map(E, ci, it, f):
    return Adapter('flat_map', _it(E, it), f, cur=None)


@model('Iterator::flatten')
def _flatten(E, ci, it):
    return Adapter('flatten', _it(E, it), cur=None)


@model('Iterator::count')
def _count(E, ci, it):
    return USZ(sum(1 for _ in drain_iter(E, _it(E, it))))


@model('Iterator::last')
def _last(E, ci, it):
    r = none()
    for x in drain_iter(E, _it(E, it)):
        r = some(x)
    return r


@model('Iterator::nth')
def _nth(E, ci, it, n):
    it = _it(E, it)
    for _ in range(E.concretize(n)):
        if not it.next(E).variant:
            return none()
    return it.next(E)


@model('Iterator::any')
def _any(E, ci, it, f):
    for x in drain_iter(E, _it(E, it)):
        if E.branch(E.call_value(f, [x])):
            return True
    return False


@model('Iterator::all')
def _all(E, ci, it, f):
    for x in drain_iter(E, _it(E, it)):
        if not E.branch(E.call_value(f, [x])):
            return False
    return True


@model('Iterator::find')
def _find(E, ci, it, f):
    for x in drain_iter(E, _it(E, it)):
        cell = [x]
        if E.branch(E.call_value(f, [Ref(cell, 0)])):
            return some(cell[0])
    return none()


@model('Iterator::find_map')
def _find_map(E, ci, it, f):
    for x in drain_iter(E, _it(E, it)):
        r = E.call_value(f, [x])
        if r.variant:
            return r
    return none()


@model('Iterator::position')
def _position(E, ci, it, f):
    for i, x in enumerate(drain_iter(E, _it(E, it))):
        if E.branch(E.call_value(f, [x])):
            return some(USZ(i))
    return none()


@model('Iterator::rposition')
def _rposition(E, ci, it, f):
    xs = list(drain_iter(E, _it(E, it)))
    for i in range(len(xs) - 1, -1, -1):
        if E.branch(E.call_value(f, [xs[i]])):
            return some(USZ(i))
    return none()


@model('Iterator::fold')
def _fold(E, ci, it, init, f):
    acc = init
    for x in drain_iter(E, _it(E, it)):
        acc = E.call_value(f, [acc, x])
    return acc


@model('Iterator::for_each')
def _for_each(E, ci, it, f):
    for x in drain_iter(E, _it(E, it)):
        E.call_value(f, [x])
    return UNIT


@model('Iterator::max', 'Iterator::min')
def _maxmin(E, ci, it):
    from .models_core import val_lt
    best = None
    for x in drain_iter(E, _it(E, it)):
        if best is None:
            best = x
        elif ci.method == 'max':
            if not E.branch(val_lt(E, x, best)):
                best = x
        else:
            if E.branch(val_lt(E, x, best)):
                best = x
    return some(best) if best is not None else none()


@model('Iterator::sum')
def _sum(E, ci, it):
    acc = None
    for x in drain_iter(E, _it(E, it)):
        x = deref(x)
        acc = x if acc is None else E.binop('Add', acc, x)
    if acc is None:
        t = type_last(ci.targs[0]) if ci.targs else 'usize'
        return I(t, 0)
    return acc


@model('Chars::as_str')
def _chars_as_str(E, ci, it):
    return deref(it).as_str()


@model('Chars::rev')
def _chars_rev(E, ci, it):
    return Adapter('rev', _it(E, it))


def collect_into(E, it, target):
    """FromIterator for the target type string"""
    tl = type_last(target)
    if tl == 'Vec' or tl == 'Box' or tl == 'VecDeque':
        return VecV(list(drain_iter(E, it)), 'Vec')
    if tl in ('String', 'OsString', 'PathBuf'):
        out = []
        for x in drain_iter(E, it):
            x = deref(x)
            if isinstance(x, I):
                out += encode_char(E, x) if x.t == 'char' else [x]
            elif tl == 'PathBuf':
                from .models_io import pathbuf_push
                pb = VecV(out, 'PathBuf')
                pathbuf_push(E, pb, x)       # pathbuf_push takes slices and Component values
                out = pb.buf
            else:
                out += list(items_of(x))
        return VecV(out, tl)
    if tl in ('Result', 'Option'):
        ga = generic_args(target)
        inner_t = ga[0] if ga else 'Vec<_>'
        good = 0 if tl == 'Result' else 1
        failed = []

        class Shunt(Iter):
            def next(self_, E_):
                if failed:
                    return none()
                x = it.next(E_)
                if not x.variant:
                    return x
                v = x.fields[0]
                if v.variant == good:
                    return some(v.fields[0])
                failed.append(v)
                return none()
        r = collect_into(E, Shunt(), inner_t)
        if failed:
            return failed[0] if tl == 'Result' else none()
        return Agg(tl, good, [r])
    if tl in ('HashMap', 'BTreeMap', 'IndexMap', 'HashSet', 'BTreeSet'):
        from .models_io import map_insert
        m = MapV(tl)
        for x in drain_iter(E, it):
            if tl.endswith('Set'):
                map_insert(E, m, x, UNIT)
            else:
                map_insert(E, m, x.fields[0], x.fields[1])
        return m
    if tl == 'unit':
        for _ in drain_iter(E, it):
            pass
        return UNIT
    raise ModelGap('collect into ' + target)


@model('Iterator::collect')
def _collect(E, ci, it):
    if not ci.targs:
        raise ModelGap('collect without target type: ' + ci.raw)
    return collect_into(E, _it(E, it), ci.targs[0])


@model('FromIterator::from_iter')
def _from_iter(E, ci, it):
    return collect_into(E, iter_of(E, it), ci.self_ty)


@model('Iterator::size_hint')
def _size_hint(E, ci, it):
    return Agg('tuple', 0, [USZ(0), none()])


@model('ExactSizeIterator::len')
def _exact_len(E, ci, it):
    v = deref(it)
    if isinstance(v, ListIter):
        return USZ(v.j - v.i)
    raise ModelGap('ExactSizeIterator::len')


@model('Iterator::min_by_key', 'Iterator::max_by_key')
def _minmax_by_key(E, ci, it, f):
    from .models_core import val_lt
    best = None
    bk = None
    for x in drain_iter(E, _it(E, it)):
        k = E.call_value(f, [Ref([x], 0)])
        if best is None:
            best, bk = x, k
        elif ci.method == 'max_by_key':
            if not E.branch(val_lt(E, k, bk)):
                best, bk = x, k
        elif E.branch(val_lt(E, k, bk)):
            best, bk = x, k
    return some(best) if best is not None else none()


@model('Iterator::min_by', 'Iterator::max_by')
def _minmax_by(E, ci, it, f):
    best = None
    for x in drain_iter(E, _it(E, it)):
        if best is None:
            best = x
            continue
        o = E.call_value(f, [Ref([best], 0), Ref([x], 0)])
        if ci.method == 'max_by':
            if o.variant <= 0:
                best = x
        elif o.variant > 0:
            best = x
    return some(best) if best is not None else none()


@model('Iterator::product')
def _product(E, ci, it):
    acc = None
    for x in drain_iter(E, _it(E, it)):
        x = deref(x)
        acc = x if acc is None else E.binop('Mul', acc, x)
    if acc is None:
        return I(type_last(ci.targs[0]) if ci.targs else 'usize', 1)
    return acc


@model('Iterator::unzip')
def _unzip(E, ci, it):
    a, b = [], []
    for x in drain_iter(E, _it(E, it)):
        a.append(x.fields[0])
        b.append(x.fields[1])
    return Agg('tuple', 0, [VecV(a, 'Vec'), VecV(b, 'Vec')])


@model('Iterator::partition')
def _partition(E, ci, it, f):
    a, b = [], []
    for x in drain_iter(E, _it(E, it)):
        cell = [x]
        (a if E.branch(E.call_value(f, [Ref(cell, 0)])) else b).append(cell[0])
    return Agg('tuple', 0, [VecV(a, 'Vec'), VecV(b, 'Vec')])


def _try_type(ci):
    """the Try type R of try_fold::<B, F, R> / try_for_each::<F, R>"""
    for t in reversed(ci.targs):
        tl = type_last(t)
        if tl in ('Option', 'Result', 'ControlFlow'):
            return tl
    raise ModelGap('try_fold: cannot determine the Try type from ' + ci.raw)


@model('Iterator::try_fold')
def _try_fold(E, ci, it, init, f):
    acc = init
    for x in drain_iter(E, _it(E, it)):
        r = E.call_value(f, [acc, x])
        good = 1 if r.ty == 'Option' else 0
        if r.variant != good:
            return r
        acc = r.fields[0]
    tl = _try_type(ci)
    return some(acc) if tl == 'Option' else ok(acc)


@model('Iterator::try_for_each')
def _try_for_each(E, ci, it, f):
    for x in drain_iter(E, _it(E, it)):
        r = E.call_value(f, [x])
        good = 1 if r.ty == 'Option' else 0
        if r.variant != good:
            return r
    tl = _try_type(ci)
    return some(UNIT) if tl == 'Option' else ok(UNIT)


@model('Iterator::eq')
def _iter_eq(E, ci, a, b):
    from .models_core import val_eq
    xa = list(drain_iter(E, _it(E, a)))
    xb = list(drain_iter(E, iter_of(E, b)))
    if len(xa) != len(xb):
        return False
    return b_and(*[val_eq(E, x, y) for x, y in zip(xa, xb)])


@model('iter::once')
def _iter_once(E, ci, x):
    return ListIter([x])


@model('iter::empty')
def _iter_empty(E, ci):
    return ListIter([])


@model('iter::repeat')
def _iter_repeat(E, ci, x):
    class Rep(Iter):
        def next(self_, E_):
            from .models_core import clone_val
            return some(clone_val(E_, x))
    return Rep()


@model('Iterator::scan')
def _scan(E, ci, it, init, f):
    inner = _it(E, it)
    cell = [init]

    class Scan(Iter):
        def __init__(self_):
            self_.done = False

        def next(self_, E_):
            if self_.done:
                return none()
            x = inner.next(E_)
            if not x.variant:
                return x
            r = E_.call_value(f, [Ref(cell, 0), x.fields[0]])
            if not r.variant:
                self_.done = True
            return r
    return Scan()


@model('array::map')
def _array_map(E, ci, a, f):
    return Agg('array', 0, [E.call_value(f, [x]) for x in deref(a).fields])


@model('array::iter', 'array::iter_mut')
def _array_iter(E, ci, a):
    v = deref(a)
    return ListIter([Ref(v.fields, i) for i in range(len(v.fields))])


@model('array::as_slice', 'array::as_mut_slice')
def _array_as_slice(E, ci, a):
    v = deref(a)
    return Slice(v.fields, 0, len(v.fields), 'slice')


@model('Iterator::map_while')
def _map_while2(E, ci, it, f):
    return Adapter('map_while', _it(E, it), f)


@model('Iterator::cycle')
def _cycle(E, ci, it):
    raise ModelGap('Iterator::cycle')


@model('Iterator::rev')
def _rev_generic(E, ci, it):
    return Adapter('rev', _it(E, it))
