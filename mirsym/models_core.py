"""Core models: str / String / Vec / slices / Option / Result / char / ints / cmp / conversions."""
import re
import z3

from .values import *
from .program import callinfo, strip_generics, split_path, type_last, strip_refs, generic_args
from .models import (MODELS, PRIORITY, CONSTS, model, as_slice, items_of, pystr, mkstring, lit, bytes_eq,
                     bytes_lt, starts_with, ends_with, decode_char, char_len_utf8, encode_char,
                     is_char_boundary, utf8_valid_prefix, char_is_whitespace, ascii_ws, bool_to_int)


# ---------------------------------------------------------------------------- panics
@model('panicking::panic', 'panicking::panic_fmt', 'panicking::panic_display', 'panicking::panic_explicit',
       'panicking::unreachable_display', 'rt::begin_panic', 'panicking::panic_nounwind',
       'panicking::panic_const::panic_const_add_overflow')
def _panic(E, ci, *a):
    msg = ''
    try:
        if a and isinstance(deref(a[0]), Slice):
            msg = pystr(a[0]).decode('utf-8', 'replace')
        elif a and isinstance(a[0], Obj) and a[0].kind == 'Arguments':
            from .models_fmt import render_arguments
            msg = bytes(E.model_value(b) & 0xff for b in render_arguments(E, a[0])).decode('utf-8', 'replace')
    except Exception:
        msg = '<fmt>'
    raise Panic('panic: ' + msg)


@model('panicking::assert_failed')
def _assert_failed(E, ci, *a):
    raise Panic('assertion failed (assert_eq/assert_ne)')


@model('option::expect_failed', 'result::unwrap_failed', 'option::unwrap_failed')
def _unwrap_failed(E, ci, *a):
    raise Panic('unwrap/expect failed')


@model('hint::must_use', 'convert::identity', 'hint::black_box')
def _ident(E, ci, x):
    return x


@model('mem::drop', 'mem::forget')
def _drop(E, ci, x):
    return UNIT


@model('mem::swap')
def _swap(E, ci, a, b):
    x, y = a.get(), b.get()
    a.set(y)
    b.set(x)
    return UNIT


@model('mem::replace')
def _replace(E, ci, a, v):
    old = a.get()
    a.set(v)
    return old


@model('mem::take')
def _take(E, ci, a):
    old = a.get()
    a.set(default_for_value(E, old))
    return old


def default_for_value(E, v):
    if isinstance(v, VecV):
        return VecV([], v.kind)
    if isinstance(v, MapV):
        return MapV(v.kind)
    if isinstance(v, Agg) and v.ty == 'Option':
        return none()
    if isinstance(v, I):
        return I(v.t, 0)
    if isinstance(v, bool):
        return False
    raise ModelGap('default_for_value ' + repr(v))


# ---------------------------------------------------------------------------- Option / Result
def is_some(o):
    return deref(o).variant == 1


@model('Option::unwrap', 'Option::expect')
def _opt_unwrap(E, ci, o, *a):
    if o.variant == 1:
        return o.fields[0]
    raise Panic('called `Option::unwrap()`/expect on a `None` value')


@model('Result::unwrap', 'Result::expect')
def _res_unwrap(E, ci, r, *a):
    if r.variant == 0:
        return r.fields[0]
    raise Panic('called `Result::unwrap()`/expect on an `Err` value')


@model('Result::unwrap_err')
def _res_unwrap_err(E, ci, r, *a):
    if r.variant == 1:
        return r.fields[0]
    raise Panic('unwrap_err on Ok')


@model('Option::unwrap_or', 'Result::unwrap_or')
def _unwrap_or(E, ci, o, d):
    good = 1 if o.ty == 'Option' else 0
    return o.fields[0] if o.variant == good else d


@model('Option::unwrap_or_default', 'Result::unwrap_or_default')
def _unwrap_or_default(E, ci, o):
    good = 1 if o.ty == 'Option' else 0
    if o.variant == good:
        return o.fields[0]
    return default_for_type(E, (ci.trait_args or ['?'])[0])


@model('Option::unwrap_or_else')
def _opt_unwrap_or_else(E, ci, o, f):
    return o.fields[0] if o.variant == 1 else E.call_value(f, [])


@model('Result::unwrap_or_else')
def _res_unwrap_or_else(E, ci, o, f):
    return o.fields[0] if o.variant == 0 else E.call_value(f, [o.fields[0]])


@model('Option::is_none')
def _is_none(E, ci, o):
    return deref(o).variant == 0


@model('Option::is_some')
def _is_some(E, ci, o):
    return deref(o).variant == 1


@model('Result::is_ok')
def _is_ok(E, ci, o):
    return deref(o).variant == 0


@model('Result::is_err')
def _is_err(E, ci, o):
    return deref(o).variant == 1


@model('Option::ok_or')
def _ok_or(E, ci, o, e):
    return ok(o.fields[0]) if o.variant == 1 else err(e)


@model('Option::ok_or_else')
def _ok_or_else(E, ci, o, f):
    return ok(o.fields[0]) if o.variant == 1 else err(E.call_value(f, []))


@model('Result::ok')
def _res_ok(E, ci, r):
    return some(r.fields[0]) if r.variant == 0 else none()


@model('Result::err')
def _res_err(E, ci, r):
    return some(r.fields[0]) if r.variant == 1 else none()


@model('Option::or')
def _opt_or(E, ci, o, d):
    return o if o.variant == 1 else d


@model('Option::or_else')
def _opt_or_else(E, ci, o, f):
    return o if o.variant == 1 else E.call_value(f, [])


@model('Option::map')
def _opt_map(E, ci, o, f):
    return some(E.call_value(f, [o.fields[0]])) if o.variant == 1 else none()


@model('Option::and_then')
def _opt_and_then(E, ci, o, f):
    return E.call_value(f, [o.fields[0]]) if o.variant == 1 else none()


@model('Option::filter')
def _opt_filter(E, ci, o, f):
    if o.variant == 1 and E.branch(E.call_value(f, [Ref(o.fields, 0)])):
        return o
    return none()


@model('Option::map_or')
def _opt_map_or(E, ci, o, d, f):
    return E.call_value(f, [o.fields[0]]) if o.variant == 1 else d


@model('Option::map_or_else')
def _opt_map_or_else(E, ci, o, d, f):
    return E.call_value(f, [o.fields[0]]) if o.variant == 1 else E.call_value(d, [])


@model('Result::map')
def _res_map(E, ci, r, f):
    return ok(E.call_value(f, [r.fields[0]])) if r.variant == 0 else r


@model('Result::map_err')
def _res_map_err(E, ci, r, f):
    return err(E.call_value(f, [r.fields[0]])) if r.variant == 1 else r


@model('Result::and_then')
def _res_and_then(E, ci, r, f):
    return E.call_value(f, [r.fields[0]]) if r.variant == 0 else r


@model('Option::as_ref', 'Option::as_mut')
def _opt_as_ref(E, ci, o):
    o = deref(o)
    return some(Ref(o.fields, 0)) if o.variant == 1 else none()


@model('Result::as_ref')
def _res_as_ref(E, ci, o):
    o = deref(o)
    return Agg('Result', o.variant, [Ref(o.fields, 0)])


@model('Option::as_deref')
def _opt_as_deref(E, ci, o):
    o = deref(o)
    if o.variant == 0:
        return none()
    v = o.fields[0]
    if isinstance(v, VecV):
        return some(v.view())
    return some(Ref(o.fields, 0))


@model('Option::take')
def _opt_take(E, ci, o):
    old = o.get()
    o.set(none())
    return old


@model('Option::transpose')
def _opt_transpose(E, ci, o):
    # Option<Result<T,E>> -> Result<Option<T>,E>
    if o.variant == 0:
        return ok(none())
    r = o.fields[0]
    return ok(some(r.fields[0])) if r.variant == 0 else err(r.fields[0])


@model('Option::cloned', 'Option::copied')
def _opt_cloned(E, ci, o):
    return some(clone_val(E, deref(o.fields[0]))) if o.variant == 1 else none()


@model('Option::insert', 'Option::get_or_insert')
def _opt_insert(E, ci, o, v):
    a = Agg('Option', 1, [v])
    o.set(a)
    return Ref(a.fields, 0)


@model('Try::branch')
def _try_branch(E, ci, x):
    # ControlFlow::Continue(v)=0 / Break(residual)=1
    if x.ty == 'Option':
        return Agg('ControlFlow', 0, [x.fields[0]]) if x.variant == 1 else Agg('ControlFlow', 1, [none()])
    if x.ty == 'Result':
        return Agg('ControlFlow', 0, [x.fields[0]]) if x.variant == 0 else Agg('ControlFlow', 1, [err(x.fields[0])])
    raise ModelGap('Try::branch on ' + repr(x))


@model('FromResidual::from_residual')
def _from_residual(E, ci, r):
    if r.ty == 'Option':
        return none()
    # Result<Infallible, E1> -> Result<T, E2> via From
    e = r.fields[0]
    dst = generic_args(ci.self_ty)
    src_res = ci.trait_args[0] if ci.trait_args else None
    src = generic_args(src_res) if src_res else []
    if ci.self_ty.strip().startswith(('std::option::Option', 'core::option::Option')):
        return none()
    if len(dst) == 2 and len(src) == 2:
        d, s = dst[1].strip(), src[1].strip()
        if d != s:
            e = E.dispatch(f'<{d} as std::convert::From<{s}>>::from', [e], None)
    return err(e)


# ---------------------------------------------------------------------------- conversions / clone / default
def clone_val(E, v):
    v = deref(v) if isinstance(v, Ref) else v
    if isinstance(v, VecV):
        return VecV([clone_val(E, x) for x in v.buf], v.kind)
    if isinstance(v, Agg):
        if isinstance(v, Closure):
            return Closure(v.ty, list(v.fields), v.body)
        return Agg(v.ty, v.variant, [clone_val(E, x) for x in v.fields])
    if isinstance(v, MapV):
        m = MapV(v.kind)
        m.entries = [[clone_val(E, k), clone_val(E, x)] for k, x in v.entries]
        return m
    if isinstance(v, (I, bool, Slice, FnItem)) or z3.is_expr(v):
        return v
    if isinstance(v, Obj):
        return v.clone(E) if hasattr(v, 'clone') else v
    raise ModelGap('clone of ' + repr(v))


@model('Clone::clone')
def _clone(E, ci, x):
    v = x.get() if isinstance(x, Ref) else x
    if isinstance(v, Ref):      # cloning a & reference
        return v
    return clone_val(E, v)


@model('Clone::clone_from', 'ToOwned::clone_into')
def _clone_from(E, ci, a, b):
    # clone_from(&mut self, src) / clone_into(&self, &mut target)
    dst, src = (a, b) if ci.method == 'clone_from' else (b, a)
    v = src.get() if isinstance(src, Ref) else src
    if isinstance(v, Slice):
        kind = {'str': 'String', 'OsStr': 'OsString', 'Path': 'PathBuf'}.get(v.kind, 'Vec')
        v = VecV([clone_val(E, i) for i in v.items()], kind)
    else:
        v = clone_val(E, v)
    dst.set(v)
    return UNIT


@model('ToOwned::to_owned', 'str::to_owned', 'slice::to_vec', 'str::to_string', 'ToString::to_string',
       '<str as ToString>::to_string', 'String::from_str', 'str::into_string', 'Path::to_path_buf',
       'OsStr::to_os_string', 'OsStr::to_owned', 'Path::to_owned', 'str::into_boxed_str')
def _to_owned(E, ci, x):
    v = deref(x)
    if isinstance(v, (Slice, VecV)):
        s = as_slice(v)
        kind = {'str': 'String', 'OsStr': 'OsString', 'Path': 'PathBuf'}.get(s.kind, 'Vec')
        if ci.method in ('to_string',):
            kind = 'String'
        if ci.method == 'to_vec':
            kind = 'Vec'
        if ci.method == 'to_path_buf':
            kind = 'PathBuf'
        if ci.method == 'to_os_string':
            kind = 'OsString'
        return VecV([clone_val(E, i) for i in s.items()], kind)
    if ci.method == 'to_string':
        from .models_fmt import display_to_items
        return VecV(display_to_items(E, x), 'String')
    return clone_val(E, v)


KIND_OF_TYPE = {'String': 'String', 'OsString': 'OsString', 'PathBuf': 'PathBuf', 'Vec': 'Vec',
                'str': 'str', 'OsStr': 'OsStr', 'Path': 'Path', 'slice': 'slice'}


def convert_to(E, v, dst):
    """From/Into between string-ish types; dst is a type string"""
    d = type_last(dst)
    v0 = deref(v)
    if isinstance(v0, (Slice, VecV)) and d in ('String', 'OsString', 'PathBuf', 'Vec'):
        if isinstance(v0, VecV) and not isinstance(v, Ref):
            return VecV(v0.buf, d)      # by-value conversion reuses the buffer
        return VecV([clone_val(E, i) for i in as_slice(v0).items()], d)
    if isinstance(v0, (Slice, VecV)) and d == 'Box':
        return v0
    if isinstance(v0, I) and d in WIDTH:
        return E.cast(v0, d, 'IntToInt')
    if (isinstance(v0, bool) or (z3.is_expr(v0) and z3.is_bool(v0))) and d in WIDTH:
        return E.cast(v0, d, 'IntToInt')
    if isinstance(v0, I) and v0.t == 'char' and d == 'String':
        return VecV(encode_char(E, v0), 'String')
    return None


@model('From::from', 'Into::into')
def _from(E, ci, x):
    if ci.method == 'from':
        dst = ci.self_ty
        src = ci.trait_args[0] if ci.trait_args else ''
    else:
        dst = ci.trait_args[0] if ci.trait_args else ''
        src = ci.self_ty
    if strip_generics(dst) == strip_generics(src):
        return x
    # crate-defined From impl?
    if ci.method == 'into':
        f = E.prog.resolve(f'<{dst} as std::convert::From<{src}>>::from')
        if f is not None:
            return E.call_fn(f, [x], None)
    r = convert_to(E, x, dst)
    if r is not None:
        return r
    dl = type_last(dst)
    if dl == 'Box':
        return Agg('Box', 0, [x])
    if dl == 'Error' and 'io::' in dst:     # io::Error::from(ErrorKind) etc
        return Agg('io::Error', 0, [x, none()])
    if dl == 'Cow':
        return Agg('Cow', 0 if isinstance(deref(x), Slice) else 1, [x])
    if dl == 'Option':
        return some(x)
    raise ModelGap(f'From::from {src} -> {dst}')


@model('AsRef::as_ref', 'Borrow::borrow', 'Deref::deref', 'DerefMut::deref_mut', 'AsMut::as_mut',
       'String::as_str', 'String::as_bytes', 'str::as_bytes', 'Vec::as_slice', 'Vec::as_mut_slice',
       'String::as_mut_str', 'PathBuf::as_path', 'OsString::as_os_str', 'Path::as_os_str', 'OsStr::as_bytes',
       'OsStrExt::as_bytes', 'OsStrExt::from_bytes', 'OsStr::from_bytes', 'Path::new', 'OsStr::new',
       'str::as_ref', 'PathBuf::as_os_str', 'OsStr::as_encoded_bytes', 'PathBuf::as_ref', 'str::as_str',
       'String::as_ref', 'Path::as_ref', 'OsStr::as_os_str', 'slice::as_ref')
def _as_ref(E, ci, x):
    v = deref(x)
    if ci.kind == 'trait' and ci.trait_last in ('AsRef', 'Borrow', 'AsMut'):
        dst = type_last(ci.trait_args[0]) if ci.trait_args else None
    elif ci.method in ('as_bytes', 'as_encoded_bytes', 'as_slice', 'as_mut_slice'):
        dst = 'slice'
    elif ci.method in ('as_str', 'as_mut_str'):
        dst = 'str'
    elif ci.method in ('as_path',) or (ci.method == 'new' and ci.self_last == 'Path'):
        dst = 'Path'
    elif ci.method in ('as_os_str', 'from_bytes') or (ci.method == 'new' and ci.self_last == 'OsStr'):
        dst = 'OsStr'
    else:
        dst = None
    if isinstance(v, (VecV, Slice)):
        s = as_slice(v)
        if dst in ('str', 'Path', 'OsStr', 'slice') and dst != s.kind:
            return Slice(s.buf, s.a, s.b, dst)
        return s
    if isinstance(v, Agg) and v.ty == 'array':
        return Slice(v.fields, 0, len(v.fields), 'slice')
    if isinstance(v, Agg) and v.ty == 'Box':
        return Ref(v.fields, 0)
    if isinstance(v, Agg) and v.ty == 'Cow':
        return as_slice(v.fields[0])
    if isinstance(x, Ref):
        # &T -> &T (AsRef<T> for T), or a crate type: look for a crate impl
        return x if not isinstance(x.get(), Ref) else x.get()
    raise ModelGap(f'{ci.raw}: as_ref of {v!r}')


def default_for_type(E, t):
    t = t.strip()
    tl = type_last(t)
    if tl in ('String', 'OsString', 'PathBuf', 'Vec'):
        return VecV([], tl)
    if tl in ('HashMap', 'BTreeMap', 'IndexMap', 'HashSet', 'BTreeSet'):
        return MapV(tl)
    if tl == 'Option':
        return none()
    if tl in WIDTH:
        return I(tl, 0)
    if tl == 'bool':
        return False
    if tl == 'unit':
        return UNIT
    if tl == 'RandomState':
        return UNIT
    if t.startswith('&'):
        inner = t.lstrip('&').strip()
        inner = inner[inner.index(' ') + 1:] if inner.startswith("'") and ' ' in inner else inner
        if inner == 'str':
            return Slice([], 0, 0, 'str')
        if inner.startswith('['):
            return Slice([], 0, 0, 'slice')
    f = E.prog.resolve(f'<{t} as std::default::Default>::default')
    if f is not None:
        return E.call_fn(f, [], None)
    raise ModelGap('Default for ' + t)


@model('Default::default')
def _default(E, ci):
    return default_for_type(E, ci.self_ty)


# ---------------------------------------------------------------------------- equality / ordering
def val_eq(E, a, b):
    """structural equality -> bool expr, no forks (structure is concrete)"""
    a = deref(a)
    b = deref(b)
    if isinstance(a, I) and isinstance(b, I):
        return i_eq(a, b)
    if isinstance(a, (bool,)) or z3.is_expr(a):
        return b_eq(a, b)
    if isinstance(a, (Slice, VecV)) and isinstance(b, (Slice, VecV, Agg)):
        sa, sb = as_slice(a), as_slice(b)
        if sa.kind == 'Path' or sb.kind == 'Path':
            from .models_io import path_eq
            return path_eq(E, sa, sb)
        xa, xb = sa.items(), sb.items()
        if len(xa) != len(xb):
            return False
        return b_and(*[val_eq(E, x, y) for x, y in zip(xa, xb)])
    if isinstance(a, Agg) and isinstance(b, (Slice, VecV)):
        return val_eq(E, b, a)
    if isinstance(a, Agg) and isinstance(b, Agg):
        if a.variant != b.variant or len(a.fields) != len(b.fields):
            return False
        f = None
        if a.ty in E.prog.crate_enums or (a.ty, 'PartialEq', 'eq') in E.prog.index:
            cands = E.prog.index.get((a.ty, 'PartialEq', 'eq'))
            if cands:
                return E.call_fn(cands[0], [Ref([a], 0), Ref([b], 0)], None)
        return b_and(*[val_eq(E, x, y) for x, y in zip(a.fields, b.fields)])
    if isinstance(a, Obj) and isinstance(b, Obj) and hasattr(a, 'original') and hasattr(b, 'original'):
        return val_eq(E, a.original, b.original)
    if isinstance(a, MapV) and isinstance(b, MapV):
        raise ModelGap('map equality')
    raise ModelGap(f'val_eq {a!r} {b!r}')


@model('PartialEq::eq')
def _eq(E, ci, a, b):
    return val_eq(E, a, b)


@model('PartialEq::ne')
def _ne(E, ci, a, b):
    return b_not(val_eq(E, a, b))


def val_lt(E, a, b):
    a = deref(a)
    b = deref(b)
    if isinstance(a, I):
        return i_cmp('Lt', a, b)
    if isinstance(a, (Slice, VecV)):
        sa, sb = as_slice(a), as_slice(b)
        if sa.kind == 'Path' or sb.kind == 'Path' or (isinstance(a, VecV) and a.kind == 'PathBuf'):
            from .models_io import path_components
            ca, cb = path_components(E, sa), path_components(E, sb)
            order = {'RootDir': 1, 'CurDir': 2, 'ParentDir': 3, 'Normal': 4}
            res = len(ca) < len(cb)
            for (ka, xa_), (kb, xb_) in reversed(list(zip(ca, cb))):
                if ka != kb:
                    res = order[ka] < order[kb]
                elif ka == 'Normal':
                    res = b_or(bytes_lt(xa_.items(), xb_.items()), b_and(bytes_eq(xa_.items(), xb_.items()), res))
            return res
        xa, xb = items_of(a), items_of(b)
        if all(isinstance(x, I) for x in xa) and all(isinstance(x, I) for x in xb):
            return bytes_lt(xa, xb)
    if isinstance(a, Agg) and isinstance(b, Agg):
        if not a.fields and not b.fields and a.ty == b.ty:
            return a.variant < b.variant         # C-like enum: derive(PartialOrd) orders by discriminant
        cands = E.prog.index.get((a.ty, 'Ord', 'cmp')) or E.prog.index.get((a.ty, 'PartialOrd', 'partial_cmp'))
        if cands:
            r = E.call_fn(cands[0], [Ref([a], 0), Ref([b], 0)], None)
            if r.ty == 'Option':
                r = r.fields[0]
            return r.variant == -1
        if a.ty in ('tuple', 'array') and len(a.fields) == len(b.fields):
            res = False
            for x, y in reversed(list(zip(a.fields, b.fields))):
                res = b_or(val_lt(E, x, y), b_and(val_eq(E, x, y), res))
            return res
        if a.ty == b.ty and a.ty in ('Option', 'Result', 'Ordering') and isinstance(a.variant, int) \
                and isinstance(b.variant, int):
            # derive(PartialOrd) of the std enums: variant order first (None < Some, Ok < Err), then the payload
            if a.variant != b.variant:
                return a.variant < b.variant
            res = False
            for x, y in reversed(list(zip(a.fields, b.fields))):
                res = b_or(val_lt(E, x, y), b_and(val_eq(E, x, y), res))
            return res
    raise ModelGap(f'val_lt {a!r} {b!r}')


@model('PartialOrd::lt')
def _lt(E, ci, a, b):
    return val_lt(E, a, b)


@model('PartialOrd::gt')
def _gt(E, ci, a, b):
    return val_lt(E, b, a)


@model('PartialOrd::le')
def _le(E, ci, a, b):
    return b_not(val_lt(E, b, a))


@model('PartialOrd::ge')
def _ge(E, ci, a, b):
    return b_not(val_lt(E, a, b))


def ordering(E, lt, eq):
    """fork into a concrete Ordering"""
    if E.branch(lt):
        return Agg('Ordering', -1, [])
    if E.branch(eq):
        return Agg('Ordering', 0, [])
    return Agg('Ordering', 1, [])


@model('Ord::cmp')
def _cmp(E, ci, a, b):
    return ordering(E, val_lt(E, a, b), val_eq(E, a, b))


@model('PartialOrd::partial_cmp')
def _partial_cmp(E, ci, a, b):
    return some(ordering(E, val_lt(E, a, b), val_eq(E, a, b)))


@model('cmp::min', 'Ord::min')
def _min(E, ci, a, b):
    if isinstance(a, I) and a.conc() and b.conc():
        return a if a.v <= b.v else b
    return a if E.branch(b_not(val_lt(E, b, a))) else b


@model('cmp::max', 'Ord::max')
def _max(E, ci, a, b):
    if isinstance(a, I) and a.conc() and b.conc():
        return b if a.v <= b.v else a
    return b if E.branch(b_not(val_lt(E, b, a))) else a


@model('Ordering::is_lt')
def _is_lt(E, ci, o):
    return o.variant == -1


@model('Ordering::is_eq')
def _is_eq(E, ci, o):
    return o.variant == 0


@model('Ordering::is_gt')
def _is_gt(E, ci, o):
    return o.variant == 1


@model('Ordering::reverse')
def _ord_rev(E, ci, o):
    return Agg('Ordering', -o.variant, [])


@model('intrinsics::discriminant_value', 'mem::discriminant')
def _discr_value(E, ci, x):
    return I('isize', deref(x).variant)


# ---------------------------------------------------------------------------- char / int
def _ch(x):
    return deref(x)


@model('char::is_ascii_digit', 'u8::is_ascii_digit')
def _is_ascii_digit(E, ci, c):
    return in_range(_ch(c), 48, 57)


@model('char::is_ascii_alphabetic', 'u8::is_ascii_alphabetic')
def _is_ascii_alpha(E, ci, c):
    c = _ch(c)
    return b_or(in_range(c, 65, 90), in_range(c, 97, 122))


@model('char::is_ascii_alphanumeric', 'u8::is_ascii_alphanumeric')
def _is_ascii_alnum(E, ci, c):
    c = _ch(c)
    return b_or(in_range(c, 48, 57), in_range(c, 65, 90), in_range(c, 97, 122))


@model('char::is_ascii_uppercase', 'u8::is_ascii_uppercase')
def _is_ascii_upper(E, ci, c):
    return in_range(_ch(c), 65, 90)


@model('char::is_ascii_lowercase', 'u8::is_ascii_lowercase')
def _is_ascii_lower(E, ci, c):
    return in_range(_ch(c), 97, 122)


@model('char::is_ascii', 'u8::is_ascii')
def _is_ascii(E, ci, c):
    return in_range(_ch(c), 0, 127)


@model('char::is_ascii_whitespace', 'u8::is_ascii_whitespace')
def _is_ascii_ws(E, ci, c):
    return ascii_ws(_ch(c))


@model('char::is_ascii_punctuation', 'u8::is_ascii_punctuation')
def _is_ascii_punct(E, ci, c):
    c = _ch(c)
    return b_or(in_range(c, 33, 47), in_range(c, 58, 64), in_range(c, 91, 96), in_range(c, 123, 126))


@model('char::is_whitespace')
def _is_whitespace(E, ci, c):
    return char_is_whitespace(_ch(c))


_UNI = {}


def _uni_ranges(name):
    """ranges of non-ASCII code points, from Python's unicodedata: 'numeric' = general categories Nd/Nl/No (Rust's
    char::is_numeric), 'assigned' = everything but Cn/Cs"""
    if name not in _UNI:
        import unicodedata
        test = {'numeric': lambda cat: cat in ('Nd', 'Nl', 'No'), 'assigned': lambda cat: cat not in ('Cn', 'Cs')}[name]
        out = []
        start = None
        for cp in range(0x80, 0x110001):
            ok = cp < 0x110000 and test(unicodedata.category(chr(cp)))
            if ok and start is None:
                start = cp
            elif not ok and start is not None:
                out.append((start, cp - 1))
                start = None
        _UNI[name] = out
    return _UNI[name]


def _in_ranges(c, ranges):
    return z3.Or(*[z3.And(z3.UGE(c.v, lo), z3.ULE(c.v, hi)) if lo != hi else c.v == lo for lo, hi in ranges])


@model('char::is_numeric', 'char::is_alphabetic', 'char::is_alphanumeric', 'char::is_uppercase',
       'char::is_lowercase')
def _char_unicode_pred(E, ci, c):
    c = _ch(c)
    if c.conc() and ci.method == 'is_numeric':
        import unicodedata
        return unicodedata.category(chr(c.v)) in ('Nd', 'Nl', 'No')
    if not c.conc():
        if ci.method == 'is_numeric' and not E.branch(in_range(c, 0, 127)):
            # non-ASCII: decided by the category table; code points unassigned in this Python's Unicode version are
            # excluded (the Unicode tables of rustc may be newer) - an input restriction listed with the evidence
            E.assume(_in_ranges(c, _uni_ranges('assigned')))
            E.assume_sites.add('char::is_numeric on a symbolic non-ASCII char: code points unassigned in Unicode %s excluded'
                               % __import__('unicodedata').unidata_version)
            return E.branch(_in_ranges(c, _uni_ranges('numeric')))
        if E.branch(in_range(c, 0, 127)):
            m = {'is_numeric': _is_ascii_digit, 'is_alphabetic': _is_ascii_alpha, 'is_alphanumeric': _is_ascii_alnum,
                 'is_uppercase': _is_ascii_upper, 'is_lowercase': _is_ascii_lower}[ci.method]
            return m(E, ci, c)
        raise ModelGap(ci.method + ' on symbolic non-ASCII char')
    s = chr(c.v)
    return {'is_numeric': s.isnumeric(), 'is_alphabetic': s.isalpha(), 'is_alphanumeric': s.isalnum(),
            'is_uppercase': s.isupper(), 'is_lowercase': s.islower()}[ci.method]


def ascii_lower(c):
    if c.conc():
        return I(c.t, c.v + 32) if 65 <= c.v <= 90 else c
    return I(c.t, z3.If(in_range(c, 65, 90), c.v + 32, c.v))


def ascii_upper(c):
    if c.conc():
        return I(c.t, c.v - 32) if 97 <= c.v <= 122 else c
    return I(c.t, z3.If(in_range(c, 97, 122), c.v - 32, c.v))


@model('char::to_ascii_lowercase', 'u8::to_ascii_lowercase')
def _to_ascii_lower(E, ci, c):
    return ascii_lower(_ch(c))


@model('char::to_ascii_uppercase', 'u8::to_ascii_uppercase')
def _to_ascii_upper(E, ci, c):
    return ascii_upper(_ch(c))


@model('char::eq_ignore_ascii_case', 'u8::eq_ignore_ascii_case')
def _eq_ignore_case_c(E, ci, a, b):
    return i_eq(ascii_lower(_ch(a)), ascii_lower(_ch(b)))


@model('char::len_utf8')
def _len_utf8(E, ci, c):
    return USZ(char_len_utf8(E, _ch(c)))


@model('char::to_digit')
def _to_digit(E, ci, c, radix):
    c = _ch(c)
    if radix.v != 10:
        raise ModelGap('to_digit radix')
    if E.branch(in_range(c, 48, 57)):
        return some(E.binop('Sub', E.cast(c, 'u32', 'IntToInt'), I('u32', 48)))
    return none()


@model('char::from_u32')
def _from_u32(E, ci, v):
    ok_ = b_and(b_or(in_range(v, 0, 0xD7FF), in_range(v, 0xE000, 0x10FFFF)))
    return some(I('char', v.v)) if E.branch(ok_) else none()


@model('char::from', '<char as From>::from')
def _char_from_u8(E, ci, v):
    return E.cast(v, 'char', 'IntToInt')


def _int_method(E, ci, a, b, op, mode):
    if mode == 'wrapping':
        return E.binop(op, a, b)
    r = E.binop(op + 'WithOverflow', a, b)
    val, ov = r.fields
    if mode == 'checked':
        return none() if E.branch(ov) else some(val)
    if mode == 'overflowing':
        return Agg('tuple', 0, [val, ov])
    if mode == 'saturating':
        if not E.branch(ov):
            return val
        w = WIDTH[a.t]
        if signed(a.t):
            neg = E.branch(i_cmp('Lt', a, I(a.t, 0))) if op != 'Mul' else \
                E.branch(b_not(b_eq(i_cmp('Lt', a, I(a.t, 0)), i_cmp('Lt', b, I(b.t, 0)))))
            return I(a.t, -(1 << (w - 1))) if neg else I(a.t, (1 << (w - 1)) - 1)
        return I(a.t, 0) if op == 'Sub' else I(a.t, (1 << w) - 1)
    raise ModelGap(mode)


for _t in WIDTH:
    for _mode in ('wrapping', 'checked', 'overflowing', 'saturating'):
        for _op, _name in (('Add', 'add'), ('Sub', 'sub'), ('Mul', 'mul')):
            MODELS[f'{_t}::{_mode}_{_name}'] = (lambda E, ci, a, b, _op=_op, _mode=_mode: _int_method(E, ci, a, b, _op, _mode))
    CONSTS[f'{_t}::MAX'] = (lambda E, _t=_t: I(_t, (1 << (WIDTH[_t] - (1 if signed(_t) else 0))) - 1)) if _t != 'char' else None
    CONSTS[f'{_t}::MIN'] = (lambda E, _t=_t: I(_t, -(1 << (WIDTH[_t] - 1)) if signed(_t) else 0))
    CONSTS[f'core::num::<impl {_t}>::MAX'] = CONSTS[f'{_t}::MAX']
    CONSTS[f'core::num::<impl {_t}>::MIN'] = CONSTS[f'{_t}::MIN']


@model('usize::from', 'u64::from', 'i64::from', 'u32::from', 'u16::from', 'i32::from')
def _int_from(E, ci, v):
    return E.cast(v, ci.self_last, 'IntToInt')


# ---- integer parsing ----------------------------------------------------------------------
INT_ERR = {'Empty': 0, 'InvalidDigit': 1, 'PosOverflow': 2, 'NegOverflow': 3, 'Zero': 4}


def parse_int_err(kind):
    return err(Agg('ParseIntError', 0, [Agg('IntErrorKind', INT_ERR[kind], [])]))


def parse_int(E, s, t):
    """<t as FromStr>::from_str semantics (radix 10)"""
    bs = list(s.items())
    w = WIDTH[t]
    sg = signed(t)
    if not bs:
        return parse_int_err('Empty')
    neg = False
    i = 0
    b0 = bs[0]
    if E.branch(i_eq(b0, U8(43))):           # '+'
        i = 1
    elif sg and E.branch(i_eq(b0, U8(45))):  # '-'
        neg = True
        i = 1
    if i == 1 and len(bs) == 1:
        return parse_int_err('InvalidDigit')
    digs = bs[i:]
    for b in digs:
        if not E.branch(in_range(b, 48, 57)):
            return parse_int_err('InvalidDigit')
    maxv = (1 << (w - 1)) - 1 if sg else (1 << w) - 1
    minv = -(1 << (w - 1)) if sg else 0
    if all(b.conc() for b in digs):
        v = int(bytes(b.v for b in digs))
        if neg:
            v = -v
        if v > maxv:
            return parse_int_err('PosOverflow')
        if v < minv:
            return parse_int_err('NegOverflow')
        return ok(I(t, v))
    # overflow is decided on the digit string (strip leading zeros, compare length, then compare
    # lexicographically with the limit's decimal spelling): 8-bit comparisons only
    lim = str(-minv if neg else maxv)
    k = 0
    while k < len(digs) - 1 and E.branch(i_eq(digs[k], U8(48))):
        k += 1
    sig = digs[k:]
    if len(sig) > len(lim):
        return parse_int_err('NegOverflow' if neg else 'PosOverflow')
    if len(sig) == len(lim):
        if E.branch(bytes_lt(lit(lim), sig)):
            return parse_int_err('NegOverflow' if neg else 'PosOverflow')
    W = w + 4
    acc = z3.BitVecVal(0, W)
    for b in sig:
        acc = acc * 10 + z3.ZeroExt(W - 8, b.z() - 48)
    r = z3.Extract(w - 1, 0, acc)
    if neg:
        r = -r
    return ok(from_z(t, r))


@model('str::parse', 'FromStr::from_str')
def _parse(E, ci, s):
    if ci.method == 'parse':
        t = ci.targs[0] if ci.targs else None
    else:
        t = ci.self_ty
    if t is None:
        raise ModelGap('parse target type unknown')
    tl = type_last(t)
    s = as_slice(s)
    if tl in WIDTH and tl != 'char':
        return parse_int(E, s, tl)
    if tl == 'String':
        return ok(VecV(list(s.items()), 'String'))
    if tl == 'PathBuf':
        return ok(VecV(list(s.items()), 'PathBuf'))
    f = E.prog.resolve(f'<{t} as std::str::FromStr>::from_str')
    if f is not None:
        return E.call_fn(f, [s], None)
    raise ModelGap('parse::<' + t + '>')


# ---------------------------------------------------------------------------- str
@model('str::len', 'slice::len', 'Vec::len', 'String::len', 'OsStr::len', 'OsString::len')
def _len(E, ci, s):
    v = deref(s)
    if isinstance(v, MapV):
        return USZ(len(v.entries))
    return USZ(len(as_slice(v)))


@model('str::is_empty', 'slice::is_empty', 'Vec::is_empty', 'String::is_empty', 'OsStr::is_empty',
       'OsString::is_empty')
def _is_empty(E, ci, s):
    return len(as_slice(s)) == 0


@model('str::is_char_boundary')
def _is_char_boundary(E, ci, s, i):
    return is_char_boundary(E, as_slice(s), E.concretize(i))


def range_bounds(E, r, n):
    """Range / RangeFrom / RangeTo / RangeFull / RangeInclusive value -> (lo, hi) concrete ints"""
    r = deref(r)
    ty = r.ty
    f = [E.concretize(x) if isinstance(x, I) else x for x in r.fields]
    if ty == 'Range':
        return f[0], f[1]
    if ty == 'RangeFrom':
        return f[0], n
    if ty == 'RangeTo':
        return 0, f[0]
    if ty == 'RangeFull':
        return 0, n
    if ty == 'RangeInclusive':
        return f[0], f[1] + 1
    if ty == 'RangeToInclusive':
        return 0, f[0] + 1
    raise ModelGap('range type ' + ty)


def str_get(E, s, r):
    s = as_slice(s)
    lo, hi = range_bounds(E, r, len(s))
    if lo > hi or hi > len(s):
        return None
    if s.kind == 'str':
        if not is_char_boundary(E, s, lo) or not is_char_boundary(E, s, hi):
            return None
    return s.sub(lo, hi)


@model('str::get', 'slice::get', 'str::get_mut', 'slice::get_mut', 'Vec::get')
def _get(E, ci, s, r):
    if isinstance(deref(r), I):
        sl = as_slice(s)
        i = E.concretize(deref(r))
        return some(Ref(sl.buf, sl.a + i)) if 0 <= i < len(sl) else none()
    x = str_get(E, s, r)
    return some(x) if x is not None else none()


@model('Index::index', 'IndexMut::index_mut')
def _index(E, ci, s, r):
    v = deref(s)
    if isinstance(v, MapV):
        from .models_io import map_lookup
        e = map_lookup(E, v, r)
        if e is None:
            raise Panic('map index: key not found')
        return Ref(e, 1)
    rr = deref(r)
    if isinstance(rr, I):
        sl = as_slice(v)
        i = E.concretize(rr)
        if not (0 <= i < len(sl)):
            raise Panic(f'index out of bounds: the len is {len(sl)} but the index is {i}')
        return Ref(sl.buf, sl.a + i)
    x = str_get(E, v, rr)
    if x is None:
        raise Panic('slice index out of range / not a char boundary')
    return x


@model('str::split_at', 'slice::split_at', 'slice::split_at_mut')
def _split_at(E, ci, s, mid):
    s = as_slice(s)
    m = E.concretize(mid)
    if m > len(s) or (s.kind == 'str' and not is_char_boundary(E, s, m)):
        raise Panic('split_at: mid out of bounds / not a char boundary')
    return Agg('tuple', 0, [s.sub(0, m), s.sub(m, len(s))])


@model('str::split_at_checked', 'slice::split_at_checked')
def _split_at_checked(E, ci, s, mid):
    s = as_slice(s)
    m = E.concretize(mid)
    if m > len(s) or (s.kind == 'str' and not is_char_boundary(E, s, m)):
        return none()
    return some(Agg('tuple', 0, [s.sub(0, m), s.sub(m, len(s))]))


@model('slice::first')
def _first(E, ci, s):
    s = as_slice(s)
    return some(Ref(s.buf, s.a)) if len(s) else none()


@model('slice::last', 'Vec::last')
def _last(E, ci, s):
    s = as_slice(s)
    return some(Ref(s.buf, s.b - 1)) if len(s) else none()


@model('slice::split_first')
def _split_first(E, ci, s):
    s = as_slice(s)
    return some(Agg('tuple', 0, [Ref(s.buf, s.a), s.sub(1, len(s))])) if len(s) else none()


@model('slice::split_last')
def _split_last(E, ci, s):
    s = as_slice(s)
    return some(Agg('tuple', 0, [Ref(s.buf, s.b - 1), s.sub(0, len(s) - 1)])) if len(s) else none()


# ---- pattern matching on strings ---------------------------------------------------------------
class Matcher:
    """str Pattern abstraction: match_at(E, buf, pos, end) -> length of match at pos (0 = none);
    `bytewise` says positions can be scanned byte by byte (needle is valid UTF-8 / ASCII)."""

    def __init__(self, E, pat):
        p = deref(pat)
        self.E = E
        self.pred = None
        self.needle = None
        self.chars = None
        if isinstance(p, I):                      # char
            self.chars = [p]
        elif isinstance(p, (Slice, VecV)) and as_slice(p).kind in ('str',) or isinstance(p, VecV) and p.kind == 'String':
            self.needle = list(as_slice(p).items())
        elif isinstance(p, (Slice,)) or (isinstance(p, Agg) and p.ty == 'array'):
            self.chars = list(as_slice(p).items())   # &[char] / [char; N]
        elif isinstance(p, (FnItem, Agg, Obj)):
            self.pred = p
        else:
            raise ModelGap('str pattern ' + repr(p))
        if self.chars is not None:
            for c in self.chars:
                if not c.conc() or c.v >= 0x80:
                    # general char pattern: go through predicate path
                    cs = self.chars
                    self.chars = None
                    self.pred = ('chars', cs)
                    break

    def match_at(self, buf, pos, end):
        E = self.E
        if self.needle is not None:
            n = len(self.needle)
            if n == 0:
                raise ModelGap('empty str pattern')
            if pos + n > end:
                return 0
            return n if E.branch(bytes_eq(buf[pos:pos + n], self.needle)) else 0
        if self.chars is not None:
            b = buf[pos]
            return 1 if E.branch(b_or(*[i_eq(b, U8(c.v)) for c in self.chars])) else 0
        c, n = decode_char(E, buf, pos)
        if isinstance(self.pred, tuple):
            r = b_or(*[i_eq(c, x) for x in self.pred[1]])
        else:
            r = E.call_value(self.pred, [c])
        return n if E.branch(r) else 0

    def step(self, buf, pos):
        """advance one position when no match at pos"""
        if self.needle is not None or self.chars is not None:
            return pos + 1
        _, n = decode_char(self.E, buf, pos)
        return pos + n

    def prev_positions(self, buf, a, b):
        """candidate start positions from the back (for reverse searching)"""
        if self.needle is not None or self.chars is not None:
            return list(range(b - 1, a - 1, -1))
        # char boundaries, forward decode
        ps = []
        p = a
        while p < b:
            ps.append(p)
            _, n = decode_char(self.E, buf, p)
            p += n
        return ps[::-1]


def find_all(E, s, pat, limit=None):
    """non-overlapping matches left to right: [(start, end)] offsets relative to s"""
    s = as_slice(s)
    m = Matcher(E, pat)
    out = []
    pos = s.a
    while pos < s.b:
        n = m.match_at(s.buf, pos, s.b)
        if n:
            out.append((pos - s.a, pos - s.a + n))
            pos += n
            if limit is not None and len(out) >= limit:
                break
        else:
            pos = m.step(s.buf, pos)
    return out


def rfind_all(E, s, pat, limit=None):
    """non-overlapping matches right to left"""
    s = as_slice(s)
    m = Matcher(E, pat)
    out = []
    hi = s.b
    for p in m.prev_positions(s.buf, s.a, s.b):
        if p >= hi:
            continue
        n = m.match_at(s.buf, p, hi)
        if n and p + n <= hi:
            out.append((p - s.a, p - s.a + n))
            hi = p
            if limit is not None and len(out) >= limit:
                break
    return out


@model('str::find')
def _find(E, ci, s, pat):
    r = find_all(E, s, pat, 1)
    return some(USZ(r[0][0])) if r else none()


@model('str::rfind')
def _rfind(E, ci, s, pat):
    r = rfind_all(E, s, pat, 1)
    return some(USZ(r[0][0])) if r else none()


@model('str::contains')
def _contains(E, ci, s, pat):
    return len(find_all(E, s, pat, 1)) > 0


@model('str::starts_with')
def _starts_with(E, ci, s, pat):
    s = as_slice(s)
    p = deref(pat)
    if isinstance(p, (Slice, VecV)) and as_slice(p).kind == 'str':
        return starts_with(s.items(), as_slice(p).items())
    if len(s) == 0:
        return False
    m = Matcher(E, pat)
    return m.match_at(s.buf, s.a, s.b) > 0


@model('str::ends_with')
def _ends_with(E, ci, s, pat):
    s = as_slice(s)
    p = deref(pat)
    if isinstance(p, (Slice, VecV)) and as_slice(p).kind == 'str':
        return ends_with(s.items(), as_slice(p).items())
    if len(s) == 0:
        return False
    if isinstance(p, I) and p.conc() and p.v < 0x80:
        return i_eq(s.buf[s.b - 1], U8(p.v))
    m = Matcher(E, pat)
    ps = m.prev_positions(s.buf, s.a, s.b)
    p0 = ps[0]
    n = m.match_at(s.buf, p0, s.b)
    return n > 0 and p0 + n == s.b


@model('slice::starts_with')
def _slice_starts_with(E, ci, s, p):
    a, b = items_of(s), items_of(p)
    if len(a) < len(b):
        return False
    return b_and(*[val_eq(E, x, y) for x, y in zip(a, b)])


@model('slice::ends_with')
def _slice_ends_with(E, ci, s, p):
    a, b = items_of(s), items_of(p)
    if len(a) < len(b):
        return False
    return b_and(*[val_eq(E, x, y) for x, y in zip(a[len(a) - len(b):], b)])


@model('slice::contains')
def _slice_contains(E, ci, s, x):
    return b_or(*[val_eq(E, y, x) for y in items_of(s)])


def pieces(s, ms):
    """split s (Slice) at matches ms -> list of Slices"""
    out = []
    last = 0
    for a, b in ms:
        out.append(s.sub(last, a))
        last = b
    out.append(s.sub(last, len(s)))
    return out


def mk_list_iter(items):
    from .models_iter import ListIter
    return ListIter(items)


@model('str::split')
def _split(E, ci, s, pat):
    s = as_slice(s)
    return mk_list_iter(pieces(s, find_all(E, s, pat)))


@model('str::split_terminator')
def _split_terminator(E, ci, s, pat):
    s = as_slice(s)
    ps = pieces(s, find_all(E, s, pat))
    if ps and len(ps[-1]) == 0:
        ps.pop()
    return mk_list_iter(ps)


@model('str::split_inclusive')
def _split_inclusive(E, ci, s, pat):
    s = as_slice(s)
    out = []
    last = 0
    for a, b in find_all(E, s, pat):
        out.append(s.sub(last, b))
        last = b
    if last < len(s):
        out.append(s.sub(last, len(s)))
    return mk_list_iter(out)


@model('str::splitn')
def _splitn(E, ci, s, n, pat):
    s = as_slice(s)
    n = E.concretize(n)
    if n == 0:
        return mk_list_iter([])
    return mk_list_iter(pieces(s, find_all(E, s, pat, n - 1)))


@model('str::rsplit')
def _rsplit(E, ci, s, pat):
    s = as_slice(s)
    ms = rfind_all(E, s, pat)[::-1]
    return mk_list_iter(pieces(s, ms)[::-1])


@model('str::rsplitn')
def _rsplitn(E, ci, s, n, pat):
    s = as_slice(s)
    n = E.concretize(n)
    if n == 0:
        return mk_list_iter([])
    ms = rfind_all(E, s, pat, n - 1)[::-1]
    return mk_list_iter(pieces(s, ms)[::-1])


@model('str::split_once')
def _split_once(E, ci, s, pat):
    s = as_slice(s)
    ms = find_all(E, s, pat, 1)
    if not ms:
        return none()
    a, b = ms[0]
    return some(Agg('tuple', 0, [s.sub(0, a), s.sub(b, len(s))]))


@model('str::rsplit_once')
def _rsplit_once(E, ci, s, pat):
    s = as_slice(s)
    ms = rfind_all(E, s, pat, 1)
    if not ms:
        return none()
    a, b = ms[0]
    return some(Agg('tuple', 0, [s.sub(0, a), s.sub(b, len(s))]))


@model('str::match_indices')
def _match_indices(E, ci, s, pat):
    s = as_slice(s)
    return mk_list_iter([Agg('tuple', 0, [USZ(a), s.sub(a, b)]) for a, b in find_all(E, s, pat)])


@model('str::rmatch_indices')
def _rmatch_indices(E, ci, s, pat):
    s = as_slice(s)
    return mk_list_iter([Agg('tuple', 0, [USZ(a), s.sub(a, b)]) for a, b in rfind_all(E, s, pat)])


@model('str::matches')
def _matches(E, ci, s, pat):
    s = as_slice(s)
    return mk_list_iter([s.sub(a, b) for a, b in find_all(E, s, pat)])


@model('str::strip_prefix')
def _strip_prefix(E, ci, s, pat):
    s = as_slice(s)
    if len(s) == 0:
        p = deref(pat)
        if isinstance(p, (Slice, VecV)) and len(as_slice(p)) == 0:
            return some(s)
        return none()
    m = Matcher(E, pat)
    if m.needle is not None and len(m.needle) == 0:
        return some(s)
    n = m.match_at(s.buf, s.a, s.b)
    return some(s.sub(n, len(s))) if n else none()


@model('str::strip_suffix')
def _strip_suffix(E, ci, s, pat):
    s = as_slice(s)
    p = deref(pat)
    if isinstance(p, (Slice, VecV)):
        nd = as_slice(p).items()
        if E.branch(ends_with(s.items(), nd)):
            return some(s.sub(0, len(s) - len(nd)))
        return none()
    if isinstance(p, I) and p.conc() and p.v < 0x80:
        if len(s) and E.branch(i_eq(s.buf[s.b - 1], U8(p.v))):
            return some(s.sub(0, len(s) - 1))
        return none()
    raise ModelGap('strip_suffix pattern')


def char_positions(E, s):
    """[(offset, I char, nbytes)] for a valid str Slice"""
    out = []
    p = s.a
    while p < s.b:
        c, n = decode_char(E, s.buf, p)
        out.append((p - s.a, c, n))
        p += n
    return out


def trim_generic(E, s, pred, left=True, right=True):
    s = as_slice(s)
    cps = char_positions(E, s)
    lo, hi = 0, len(s)
    i = 0
    if left:
        while i < len(cps) and E.branch(pred(cps[i][1])):
            lo = cps[i][0] + cps[i][2]
            i += 1
    j = len(cps) - 1
    if right:
        while j >= i and E.branch(pred(cps[j][1])):
            hi = cps[j][0]
            j -= 1
    return s.sub(lo, hi)


@model('str::trim')
def _trim(E, ci, s):
    return trim_generic(E, s, char_is_whitespace)


@model('str::trim_start')
def _trim_start(E, ci, s):
    return trim_generic(E, s, char_is_whitespace, right=False)


@model('str::trim_end')
def _trim_end(E, ci, s):
    return trim_generic(E, s, char_is_whitespace, left=False)


def _pat_pred(E, pat):
    p = deref(pat)
    if isinstance(p, I):
        return lambda c: i_eq(c, p)
    if isinstance(p, (Slice, Agg)) and not isinstance(p, Closure):
        cs = list(as_slice(p).items())
        return lambda c: b_or(*[i_eq(c, x) for x in cs])
    return lambda c: E.call_value(p, [c])


@model('str::trim_matches')
def _trim_matches(E, ci, s, pat):
    return trim_generic(E, s, _pat_pred(E, pat))


@model('str::trim_start_matches')
def _trim_start_matches(E, ci, s, pat):
    p = deref(pat)
    if isinstance(p, (Slice, VecV)) and as_slice(p).kind == 'str':
        s = as_slice(s)
        nd = as_slice(p).items()
        lo = 0
        while nd and lo + len(nd) <= len(s) and E.branch(bytes_eq(s.items()[lo:lo + len(nd)], nd)):
            lo += len(nd)
        return s.sub(lo, len(s))
    return trim_generic(E, s, _pat_pred(E, pat), right=False)


@model('str::trim_end_matches')
def _trim_end_matches(E, ci, s, pat):
    p = deref(pat)
    if isinstance(p, (Slice, VecV)) and as_slice(p).kind == 'str':
        s = as_slice(s)
        nd = as_slice(p).items()
        hi = len(s)
        while nd and hi - len(nd) >= 0 and E.branch(bytes_eq(s.items()[hi - len(nd):hi], nd)):
            hi -= len(nd)
        return s.sub(0, hi)
    return trim_generic(E, s, _pat_pred(E, pat), left=False)


@model('str::trim_ascii', 'slice::trim_ascii')
def _trim_ascii(E, ci, s):
    s = as_slice(s)
    lo, hi = 0, len(s)
    while lo < hi and E.branch(ascii_ws(s.buf[s.a + lo])):
        lo += 1
    while hi > lo and E.branch(ascii_ws(s.buf[s.a + hi - 1])):
        hi -= 1
    return s.sub(lo, hi)


@model('str::lines')
def _lines(E, ci, s):
    s = as_slice(s)
    out = []
    last = 0
    for a, b in find_all(E, s, I('char', 10)):
        end = a
        if end > last and E.branch(i_eq(s.buf[s.a + end - 1], U8(13))):
            end -= 1
        out.append(s.sub(last, end))
        last = b
    if last < len(s):
        # final line without \n: std's lines() (split_inclusive based) strips a trailing "\r" only with "\n"
        out.append(s.sub(last, len(s)))
    return mk_list_iter(out)


@model('str::split_whitespace')
def _split_whitespace(E, ci, s):
    s = as_slice(s)
    out = []
    start = None
    for off, c, n in char_positions(E, s):
        if E.branch(char_is_whitespace(c)):
            if start is not None:
                out.append(s.sub(start, off))
                start = None
        elif start is None:
            start = off
    if start is not None:
        out.append(s.sub(start, len(s)))
    return mk_list_iter(out)


@model('str::split_ascii_whitespace')
def _split_ascii_whitespace(E, ci, s):
    s = as_slice(s)
    out = []
    start = None
    for i in range(len(s)):
        if E.branch(ascii_ws(s.buf[s.a + i])):
            if start is not None:
                out.append(s.sub(start, i))
                start = None
        elif start is None:
            start = i
    if start is not None:
        out.append(s.sub(start, len(s)))
    return mk_list_iter(out)


@model('str::chars')
def _chars(E, ci, s):
    from .models_iter import CharsIter
    return CharsIter(as_slice(s))


@model('str::char_indices')
def _char_indices(E, ci, s):
    from .models_iter import CharsIter
    return CharsIter(as_slice(s), indices=True)


@model('str::bytes')
def _bytes(E, ci, s):
    return mk_list_iter(list(as_slice(s).items()))


def lower_items(E, items, upper=False):
    out = []
    p = 0
    n = len(items)
    while p < n:
        b = items[p]
        if b.conc() and b.v >= 0x80 or (not b.conc() and not E.branch(in_range(b, 0, 127))):
            c, k = decode_char(E, items, p)
            if not c.conc():
                if upper:
                    raise ModelGap('to_uppercase of a symbolic non-ASCII char')
                # The only scalar values whose lowercase mapping contains ASCII are U+212A (KELVIN SIGN -> k)
                # and U+0130 (-> i U+0307).  Any other non-ASCII char lowercases to non-ASCII text; the crate
                # only compares the result with ASCII literals (Digest::from_str), for which keeping the
                # original bytes is exact.  (Not exact for comparisons with non-ASCII text.)
                if E.branch(i_eq(c, I('char', 0x212A))):
                    out += lit('k')
                elif E.branch(i_eq(c, I('char', 0x0130))):
                    out += lit('i\u0307'.encode())
                else:
                    out += items[p:p + k]
                p += k
                continue
            ch = chr(c.v)
            if not upper and ch == 'Σ':
                raise ModelGap('to_lowercase: final sigma rule not modelled')
            out += lit((ch.upper() if upper else ch.lower()).encode())
            p += k
            continue
        out.append(ascii_upper(b) if upper else ascii_lower(b))
        p += 1
    return out


@model('str::to_lowercase')
def _to_lowercase(E, ci, s):
    return VecV(lower_items(E, list(as_slice(s).items())), 'String')


@model('str::to_uppercase')
def _to_uppercase(E, ci, s):
    return VecV(lower_items(E, list(as_slice(s).items()), True), 'String')


@model('str::to_ascii_lowercase', 'slice::to_ascii_lowercase')
def _to_ascii_lowercase(E, ci, s):
    s = as_slice(s)
    return VecV([ascii_lower(b) for b in s.items()], 'String' if s.kind == 'str' else 'Vec')


@model('str::to_ascii_uppercase', 'slice::to_ascii_uppercase')
def _to_ascii_uppercase(E, ci, s):
    s = as_slice(s)
    return VecV([ascii_upper(b) for b in s.items()], 'String' if s.kind == 'str' else 'Vec')


@model('str::eq_ignore_ascii_case', 'slice::eq_ignore_ascii_case')
def _eq_ignore_ascii_case(E, ci, a, b):
    return bytes_eq([ascii_lower(x) for x in items_of(a)], [ascii_lower(x) for x in items_of(b)])


@model('str::repeat')
def _repeat(E, ci, s, n):
    return VecV(list(as_slice(s).items()) * E.concretize(n), 'String')


@model('str::replace')
def _str_replace(E, ci, s, pat, to):
    s = as_slice(s)
    out = []
    last = 0
    t = list(as_slice(to).items())
    for a, b in find_all(E, s, pat):
        out += s.items()[last:a] + t
        last = b
    out += s.items()[last:]
    return VecV(out, 'String')


@model('str::from_utf8', 'str::from_utf8_mut', 'converts::from_utf8')
def _from_utf8(E, ci, b):
    s = as_slice(b)
    good, e = utf8_valid_prefix(E, list(s.items()))
    if good:
        return ok(Slice(s.buf, s.a, s.b, 'str'))
    return err(Agg('Utf8Error', 0, [USZ(e[0]), some(U8(e[1])) if e[1] is not None else none()]))


@model('str::from_utf8_unchecked', 'converts::from_utf8_unchecked')
def _from_utf8_unchecked(E, ci, b):
    s = as_slice(b)
    return Slice(s.buf, s.a, s.b, 'str')


@model('Utf8Error::valid_up_to')
def _valid_up_to(E, ci, e):
    return deref(e).fields[0]


@model('Utf8Error::error_len')
def _error_len(E, ci, e):
    o = deref(e).fields[1]
    return some(E.cast(o.fields[0], 'usize', 'IntToInt')) if o.variant == 1 else none()


@model('String::from_utf8')
def _string_from_utf8(E, ci, v):
    good, e = utf8_valid_prefix(E, list(v.buf))
    if good:
        return ok(VecV(v.buf, 'String'))
    ue = Agg('Utf8Error', 0, [USZ(e[0]), some(U8(e[1])) if e[1] is not None else none()])
    return err(Agg('FromUtf8Error', 0, [v, ue]))


@model('FromUtf8Error::utf8_error')
def _utf8_error(E, ci, e):
    return deref(e).fields[1]


@model('FromUtf8Error::into_bytes')
def _into_bytes_err(E, ci, e):
    return e.fields[0]


def lossy_items(E, items):
    """String::from_utf8_lossy: replace each maximal invalid sequence by U+FFFD"""
    out = []
    items = list(items)
    p = 0
    while p < len(items):
        good, e = utf8_valid_prefix(E, items[p:])
        if good:
            out += items[p:]
            break
        upto, elen = e
        out += items[p:p + upto] + lit('�')
        if elen is None:
            break
        p += upto + elen
    return out


@model('String::from_utf8_lossy')
def _from_utf8_lossy(E, ci, b):
    s = as_slice(b)
    items = list(s.items())
    good, _ = utf8_valid_prefix(E, items)
    if good:
        return Agg('Cow', 0, [Slice(s.buf, s.a, s.b, 'str')])
    return Agg('Cow', 1, [VecV(lossy_items(E, items), 'String')])


@model('OsStr::to_string_lossy', 'Path::to_string_lossy')
def _to_string_lossy(E, ci, s):
    return _from_utf8_lossy(E, ci, s)


@model('OsStr::to_str', 'Path::to_str')
def _os_to_str(E, ci, s):
    s = as_slice(s)
    good, _ = utf8_valid_prefix(E, list(s.items()))
    return some(Slice(s.buf, s.a, s.b, 'str')) if good else none()


@model('OsString::into_string')
def _os_into_string(E, ci, s):
    good, _ = utf8_valid_prefix(E, list(s.buf))
    return ok(VecV(s.buf, 'String')) if good else err(s)


@model('Cow::into_owned', 'Cow::to_owned')
def _cow_into_owned(E, ci, c):
    c = deref(c)
    v = c.fields[0]
    if isinstance(v, VecV):
        return v if ci.method == 'into_owned' else clone_val(E, v)
    s = as_slice(v)
    return VecV(list(s.items()), {'str': 'String', 'OsStr': 'OsString', 'Path': 'PathBuf'}.get(s.kind, 'Vec'))


@model('<Cow as Deref>::deref', '<Cow as AsRef>::as_ref')
def _cow_deref(E, ci, c):
    return as_slice(deref(c).fields[0])


# ---------------------------------------------------------------------------- String / Vec
@model('String::new', 'OsString::new', 'PathBuf::new', 'Vec::new', 'Vec::with_capacity', 'String::with_capacity',
       'OsString::with_capacity')
def _new(E, ci, *a):
    return VecV([], ci.self_last)


@model('String::from', 'OsString::from', 'PathBuf::from')
def _string_from(E, ci, x):
    r = convert_to(E, x, ci.self_last)
    if r is None:
        raise ModelGap('String::from ' + repr(x))
    return r


@model('Vec::push')
def _push(E, ci, v, x):
    deref(v).buf.append(x)
    return UNIT


@model('Vec::pop')
def _pop(E, ci, v):
    b = deref(v).buf
    return some(b.pop()) if b else none()


@model('String::push')
def _string_push(E, ci, s, c):
    deref(s).buf.extend(encode_char(E, c))
    return UNIT


@model('String::pop')
def _string_pop(E, ci, s):
    v = deref(s)
    if not v.buf:
        return none()
    cps = char_positions(E, v.view())
    off, c, n = cps[-1]
    del v.buf[off:]
    return some(c)


@model('String::push_str', 'Vec::extend_from_slice', 'OsString::push', 'String::extend_from_slice')
def _push_str(E, ci, s, t):
    deref(s).buf.extend(clone_val(E, x) for x in items_of(t))
    return UNIT


@model('Vec::append')
def _append(E, ci, v, o):
    ov = deref(o)
    deref(v).buf.extend(ov.buf)
    ov.buf = []
    return UNIT


@model('Vec::clear', 'String::clear', 'OsString::clear')
def _clear(E, ci, v):
    v = deref(v)
    if isinstance(v, MapV):
        v.entries = []
    else:
        del v.buf[:]
    return UNIT


@model('Vec::truncate', 'String::truncate')
def _truncate(E, ci, v, n):
    v = deref(v)
    n = E.concretize(n)
    if v.kind == 'String' and n < len(v.buf) and not is_char_boundary(E, v.view(), n):
        raise Panic('String::truncate: not a char boundary')
    del v.buf[n:]
    return UNIT


@model('Vec::split_off', 'String::split_off')
def _split_off(E, ci, v, at):
    v = deref(v)
    n = E.concretize(at)
    if n > len(v.buf):
        raise Panic('split_off: `at` out of bounds')
    if v.kind == 'String' and not is_char_boundary(E, v.view(), n):
        raise Panic('String::split_off: not a char boundary')
    tail = v.buf[n:]
    del v.buf[n:]
    return VecV(tail, v.kind)


@model('Vec::insert')
def _vec_insert(E, ci, v, i, x):
    v = deref(v)
    i = E.concretize(i)
    if i > len(v.buf):
        raise Panic('Vec::insert index out of bounds')
    v.buf.insert(i, x)
    return UNIT


@model('Vec::remove')
def _vec_remove(E, ci, v, i):
    v = deref(v)
    i = E.concretize(i)
    if i >= len(v.buf):
        raise Panic('Vec::remove index out of bounds')
    return v.buf.pop(i)


@model('Vec::drain', 'String::drain')
def _drain(E, ci, v, r):
    v = deref(v)
    lo, hi = range_bounds(E, r, len(v.buf))
    if lo > hi or hi > len(v.buf):
        raise Panic('drain range out of bounds')
    out = v.buf[lo:hi]
    del v.buf[lo:hi]
    return mk_list_iter(out)


@model('Vec::extend', 'Extend::extend', 'String::extend')
def _extend(E, ci, v, it):
    from .models_iter import iter_of, drain_iter
    v = deref(v)
    for x in drain_iter(E, iter_of(E, it)):
        if isinstance(v, VecV) and v.kind == 'String':
            x = deref(x)
            if isinstance(x, I):
                v.buf.extend(encode_char(E, x) if x.t == 'char' else [x])
            else:
                v.buf.extend(items_of(x))
        else:
            v.buf.append(x)
    return UNIT


@model('Vec::into_boxed_slice', 'String::into_bytes', 'String::into_boxed_str', 'OsString::into_vec',
       'OsStringExt::into_vec', 'PathBuf::into_os_string', 'slice::into_vec', 'Vec::leak',
       'OsString::into_encoded_bytes')
def _into_same(E, ci, v):
    if isinstance(v, VecV):
        k = {'into_bytes': 'Vec', 'into_vec': 'Vec', 'into_os_string': 'OsString',
             'into_encoded_bytes': 'Vec'}.get(ci.method, v.kind)
        return VecV(v.buf, k)
    return v


@model('OsStringExt::from_vec', 'OsString::from_vec', 'String::from_utf8_unchecked',
       'OsString::from_encoded_bytes_unchecked')
def _from_vec(E, ci, v):
    return VecV(v.buf, 'String' if ci.self_last == 'String' else 'OsString')


@model('boxed::box_assume_init_into_vec_unsafe')
def _box_into_vec(E, ci, b):
    v = b.cell[0] if isinstance(b, Transparent) else deref(b)
    if isinstance(v, Transparent):
        raise ModelGap('box never initialised')
    return VecV(list(v.fields), 'Vec')


@model('Box::new_uninit')
def _box_new_uninit(E, ci):
    return Transparent()


@model('Box::new')
def _box_new(E, ci, x):
    return Agg('Box', 0, [x])


@model('slice::join', 'slice::concat', 'Join::join')
def _join(E, ci, s, *sep):
    parts = items_of(s)
    sp = list(items_of(sep[0])) if sep else []
    out = []
    textual = True
    for i, p in enumerate(parts):
        if i:
            out += sp
        pv = deref(p)
        if not ((isinstance(pv, Slice) and pv.kind == 'str') or (isinstance(pv, VecV) and pv.kind == 'String')):
            textual = False
        out += list(items_of(p))
    # [&str].concat()/join -> String ; [&[u8]] / [Vec<u8>] -> Vec<u8>
    return VecV(out, 'String' if (textual and parts) or not parts and 'str' in (ci.self_ty or ci.raw) else 'Vec')


@model('slice::iter', 'Vec::iter', 'slice::iter_mut', 'Vec::iter_mut')
def _slice_iter(E, ci, s):
    s = as_slice(s)
    return mk_list_iter([Ref(s.buf, s.a + i) for i in range(len(s))])


@model('slice::windows')
def _windows(E, ci, s, n):
    s = as_slice(s)
    n = E.concretize(n)
    if n == 0:
        raise Panic('window size must be non-zero')
    return mk_list_iter([s.sub(i, i + n) for i in range(0, len(s) - n + 1)])


@model('slice::chunks')
def _chunks(E, ci, s, n):
    s = as_slice(s)
    n = E.concretize(n)
    if n == 0:
        raise Panic('chunk size must be non-zero')
    return mk_list_iter([s.sub(i, min(i + n, len(s))) for i in range(0, len(s), n)])


@model('slice::split')
def _slice_split(E, ci, s, pred):
    s = as_slice(s)
    out = []
    last = 0
    for i in range(len(s)):
        if E.branch(E.call_value(pred, [Ref(s.buf, s.a + i)])):
            out.append(s.sub(last, i))
            last = i + 1
    out.append(s.sub(last, len(s)))
    return mk_list_iter(out)


@model('slice::reverse')
def _reverse(E, ci, s):
    s = as_slice(s)
    s.buf[s.a:s.b] = s.buf[s.a:s.b][::-1]
    return UNIT


@model('slice::copy_from_slice', 'slice::clone_from_slice')
def _copy_from_slice(E, ci, d, s):
    d = as_slice(d)
    src = items_of(s)
    if len(src) != len(d):
        raise Panic('copy_from_slice: length mismatch')
    d.buf[d.a:d.b] = list(src)
    return UNIT


@model('slice::fill')
def _fill(E, ci, d, v):
    d = as_slice(d)
    for i in range(d.a, d.b):
        d.buf[i] = v
    return UNIT


@model('Vec::sort', 'slice::sort', 'slice::sort_unstable')
def _sort(E, ci, s):
    s = as_slice(s)
    items = s.items()
    # insertion sort with forking comparisons
    out = []
    for x in items:
        i = len(out)
        while i > 0 and E.branch(val_lt(E, x, out[i - 1])):
            i -= 1
        out.insert(i, x)
    s.buf[s.a:s.b] = out
    return UNIT


@model('Vec::dedup')
def _dedup(E, ci, v):
    v = deref(v)
    out = []
    for x in v.buf:
        if out and E.branch(val_eq(E, out[-1], x)):
            continue
        out.append(x)
    v.buf[:] = out
    return UNIT


@model('Vec::contains')
def _vec_contains(E, ci, s, x):
    return b_or(*[val_eq(E, y, x) for y in items_of(s)])


@model('Vec::retain')
def _retain(E, ci, v, f):
    v = deref(v)
    out = []
    for i, x in enumerate(list(v.buf)):
        cell = [x]
        if E.branch(E.call_value(f, [Ref(cell, 0)])):
            out.append(cell[0])
    v.buf[:] = out
    return UNIT


@model('Vec::from', '<Vec as From>::from')
def _vec_from(E, ci, x):
    return VecV([clone_val(E, i) for i in items_of(x)], 'Vec')


@model('Vec::first', 'Vec::first_mut', 'slice::first_mut')
def _vec_first(E, ci, v):
    s = as_slice(v)
    return some(Ref(s.buf, s.a)) if len(s) else none()


@model('Vec::last_mut', 'slice::last_mut')
def _vec_last_mut(E, ci, v):
    s = as_slice(v)
    return some(Ref(s.buf, s.b - 1)) if len(s) else none()


@model('Vec::swap', 'slice::swap')
def _vswap(E, ci, v, i, j):
    s = as_slice(v)
    i, j = E.concretize(i), E.concretize(j)
    if i >= len(s) or j >= len(s):
        raise Panic('swap index out of bounds')
    s.buf[s.a + i], s.buf[s.a + j] = s.buf[s.a + j], s.buf[s.a + i]
    return UNIT


@model('Vec::reserve', 'String::reserve', 'Vec::shrink_to_fit', 'String::shrink_to_fit', 'Vec::reserve_exact')
def _reserve(E, ci, *a):
    return UNIT


@model('Vec::capacity', 'String::capacity')
def _capacity(E, ci, v):
    return USZ(len(deref(v).buf))


# ---------------------------------------------------------------------------- ranges
@model('<Range as IntoIterator>::into_iter', '<RangeInclusive as IntoIterator>::into_iter')
def _range_into_iter(E, ci, r):
    from .models_iter import RangeIter
    lo, hi = range_bounds(E, r, None)
    return RangeIter(lo, hi, r.fields[0].t)


@model('<Range as Iterator>::next', '<RangeInclusive as Iterator>::next')
def _range_next(E, ci, r):
    from .models_iter import RangeIter
    v = deref(r)
    if isinstance(v, RangeIter):
        return v.next(E)
    # a Range struct used directly as iterator
    lo = E.concretize(v.fields[0])
    hi = E.concretize(v.fields[1])
    if lo < hi:
        v.fields[0] = I(v.fields[0].t, lo + 1)
        return some(I(v.fields[1].t, lo))
    return none()


@model('Range::contains', 'RangeInclusive::contains', 'RangeFrom::contains', 'RangeTo::contains')
def _range_contains(E, ci, r, x):
    r = deref(r)
    x = deref(x)
    ty = r.ty
    if ty == 'Range':
        return b_and(i_cmp('Le', r.fields[0], x), i_cmp('Lt', x, r.fields[1]))
    if ty == 'RangeInclusive':
        return b_and(i_cmp('Le', r.fields[0], x), i_cmp('Le', x, r.fields[1]))
    if ty == 'RangeFrom':
        return i_cmp('Le', r.fields[0], x)
    if ty == 'RangeTo':
        return i_cmp('Lt', x, r.fields[0])
    raise ModelGap('range contains')


@model('RangeInclusive::new')
def _range_incl_new(E, ci, a, b):
    return Agg('RangeInclusive', 0, [a, b])


# ---------------------------------------------------------------------------- fallbacks
def fallback(E, ci, argv, fr):
    """value-driven handling of calls without a registered model"""
    # generic type parameter as Self (e.g. `<P as AsRef<Path>>::as_ref`, `<R as Read>::read`):
    # re-dispatch on the run-time value
    if ci.kind == 'trait' and argv:
        v = deref(argv[0])
        # crate type implementing the trait?
        ty = None
        if isinstance(v, Agg):
            ty = v.ty
        elif isinstance(v, Obj):
            ty = v.kind
        if ty is not None:
            cands = E.prog.index.get((type_last(ty) if '::' in ty or '<' in ty else ty, ci.trait_last, ci.method))
            if cands:
                return E.call_fn(cands[0], argv, ci)
        if isinstance(v, Obj) and hasattr(v, 'methods') and ci.method in v.methods:
            return v.methods[ci.method](E, ci, *argv)
    if ci.kind == 'trait' and ci.trait_last == 'Digest' and ci.method == 'digest':
        from .models_env import hasher_type, digest_bytes
        return VecV(digest_bytes(E, hasher_type(E, ci, fr), list(items_of(argv[0]))), 'GenericArray')
    if ci.kind == 'trait' and ci.trait_last == 'Digest' and ci.method == 'new':
        from .models_env import hasher_type
        return Obj('Hasher', alg=hasher_type(E, ci, fr), data=[])
    if ci.kind == 'trait' and ci.trait_last in ('Fn', 'FnMut', 'FnOnce'):
        args = argv[1].fields if len(argv) > 1 and isinstance(argv[1], Agg) else []
        f = argv[0]
        if deref(f) is None:          # capture-less closure: a ZST that is never materialised
            t = strip_refs(ci.self_ty)
            if t.startswith('{closure@'):
                f = E.mk_closure(t, [], fr)
        return E.call_value(f, list(args))
    return None


@model('ptr::eq')
def _ptr_eq(E, ci, a, b):
    if isinstance(a, Ref) and isinstance(b, Ref):
        return a.cont is b.cont and a.key == b.key
    if isinstance(a, Slice) and isinstance(b, Slice):
        return a.buf is b.buf and a.a == b.a and a.b == b.b
    raise ModelGap('ptr::eq on ' + repr(a))


@model('vec::from_elem')
def _from_elem(E, ci, x, n):
    return VecV([clone_val(E, x) for _ in range(E.concretize(n))], 'Vec')


@model('Option::is_some_and')
def _is_some_and(E, ci, o, f):
    return o.variant == 1 and E.branch(E.call_value(f, [o.fields[0]]))


@model('Option::is_none_or')
def _is_none_or(E, ci, o, f):
    return o.variant == 0 or E.branch(E.call_value(f, [o.fields[0]]))


@model('Result::is_ok_and')
def _is_ok_and(E, ci, o, f):
    return o.variant == 0 and E.branch(E.call_value(f, [o.fields[0]]))


@model('Result::is_err_and')
def _is_err_and(E, ci, o, f):
    return o.variant == 1 and E.branch(E.call_value(f, [o.fields[0]]))


@model('Cell::new', 'RefCell::new')
def _cell_new(E, ci, v):
    return Agg('Cell', 0, [v])


@model('Cell::get')
def _cell_get(E, ci, c):
    return deref(c).fields[0]


@model('Cell::set')
def _cell_set(E, ci, c, v):
    deref(c).fields[0] = v
    return UNIT


@model('Cell::replace')
def _cell_replace(E, ci, c, v):
    old = deref(c).fields[0]
    deref(c).fields[0] = v
    return old


def _sort_with(E, s, less):
    """stable insertion sort with a forking comparison"""
    s = as_slice(s)
    out = []
    for x in s.items():
        i = len(out)
        while i > 0 and less(x, out[i - 1]):
            i -= 1
        out.insert(i, x)
    s.buf[s.a:s.b] = out
    return UNIT


@model('slice::sort_by', 'slice::sort_unstable_by', 'Vec::sort_by', 'Vec::sort_unstable_by')
def _sort_by(E, ci, s, f):
    def less(a, b):
        o = E.call_value(f, [Ref([a], 0), Ref([b], 0)])
        return o.variant == -1
    return _sort_with(E, s, less)


@model('slice::sort_by_key', 'slice::sort_unstable_by_key', 'Vec::sort_by_key', 'slice::sort_by_cached_key')
def _sort_by_key(E, ci, s, f):
    def less(a, b):
        ka = E.call_value(f, [Ref([a], 0)])
        kb = E.call_value(f, [Ref([b], 0)])
        return E.branch(val_lt(E, ka, kb))
    return _sort_with(E, s, less)


# ---------------------------------------------------------------------------- assorted small models
@model('bool::then')
def _bool_then(E, ci, b, f):
    return some(E.call_value(f, [])) if E.branch(b) else none()


@model('bool::then_some')
def _bool_then_some(E, ci, b, v):
    return some(v) if E.branch(b) else none()


@model('Option::zip')
def _opt_zip(E, ci, a, b):
    return some(Agg('tuple', 0, [a.fields[0], b.fields[0]])) if a.variant and b.variant else none()


@model('Option::xor')
def _opt_xor(E, ci, a, b):
    if a.variant and not b.variant:
        return a
    if b.variant and not a.variant:
        return b
    return none()


@model('Option::and')
def _opt_and(E, ci, a, b):
    return b if a.variant else none()


@model('Option::unwrap_unchecked', 'Result::unwrap_unchecked')
def _unwrap_unchecked(E, ci, o):
    return o.fields[0]


@model('Option::get_or_insert_with')
def _get_or_insert_with(E, ci, o, f):
    v = o.get()
    if v.variant == 0:
        v = Agg('Option', 1, [E.call_value(f, [])])
        o.set(v)
    return Ref(v.fields, 0)


@model('Option::replace')
def _opt_replace(E, ci, o, v):
    old = o.get()
    o.set(some(v))
    return old


@model('Result::or_else')
def _res_or_else(E, ci, r, f):
    return r if r.variant == 0 else E.call_value(f, [r.fields[0]])


@model('Result::map_or')
def _res_map_or(E, ci, r, d, f):
    return E.call_value(f, [r.fields[0]]) if r.variant == 0 else d


@model('Result::map_or_else')
def _res_map_or_else(E, ci, r, d, f):
    return E.call_value(f, [r.fields[0]]) if r.variant == 0 else E.call_value(d, [r.fields[0]])


@model('Result::iter', 'Option::iter', 'Option::into_iter', 'Result::into_iter')
def _opt_iter(E, ci, o):
    v = deref(o)
    good = 1 if v.ty == 'Option' else 0
    items = [Ref(v.fields, 0) if isinstance(o, Ref) else v.fields[0]] if v.variant == good else []
    return mk_list_iter(items)


@model('Ordering::then')
def _ord_then(E, ci, a, b):
    return a if a.variant != 0 else b


@model('Ordering::then_with')
def _ord_then_with(E, ci, a, f):
    return a if a.variant != 0 else E.call_value(f, [])


@model('Ordering::is_le')
def _ord_is_le(E, ci, o):
    return o.variant <= 0


@model('Ordering::is_ge')
def _ord_is_ge(E, ci, o):
    return o.variant >= 0


@model('Ordering::is_ne')
def _ord_is_ne(E, ci, o):
    return o.variant != 0


@model('char::is_digit')
def _char_is_digit(E, ci, c, radix):
    if radix.v == 10:
        return in_range(_ch(c), 48, 57)
    if radix.v == 16:
        c = _ch(c)
        return b_or(in_range(c, 48, 57), in_range(c, 65, 70), in_range(c, 97, 102))
    raise ModelGap('is_digit radix')


@model('char::is_ascii_hexdigit', 'u8::is_ascii_hexdigit')
def _is_ascii_hexdigit(E, ci, c):
    c = _ch(c)
    return b_or(in_range(c, 48, 57), in_range(c, 65, 70), in_range(c, 97, 102))


@model('char::is_ascii_control', 'u8::is_ascii_control')
def _is_ascii_control(E, ci, c):
    c = _ch(c)
    return b_or(in_range(c, 0, 31), in_range(c, 127, 127))


@model('char::is_ascii_graphic', 'u8::is_ascii_graphic')
def _is_ascii_graphic(E, ci, c):
    return in_range(_ch(c), 33, 126)


@model('char::is_control')
def _is_control(E, ci, c):
    c = _ch(c)
    return b_or(in_range(c, 0, 31), in_range(c, 127, 159))


for _t in ('u8', 'u16', 'u32', 'u64', 'usize', 'i8', 'i16', 'i32', 'i64', 'isize'):
    MODELS[f'{_t}::from_str_radix'] = (lambda E, ci, s, radix, _t=_t: parse_int(E, as_slice(s), _t)
                                       if radix.v == 10 else (_ for _ in ()).throw(ModelGap('from_str_radix')))
    MODELS[f'{_t}::abs_diff'] = (lambda E, ci, a, b: E.binop('Sub', a, b) if E.branch(i_cmp('Ge', a, b))
                                 else E.binop('Sub', b, a))
    MODELS[f'{_t}::pow'] = None
    del MODELS[f'{_t}::pow']


@model('String::insert')
def _string_insert(E, ci, s, i, c):
    v = deref(s)
    i = E.concretize(i)
    if i > len(v.buf) or not is_char_boundary(E, v.view(), i):
        raise Panic('String::insert: not a char boundary')
    v.buf[i:i] = encode_char(E, c)
    return UNIT


@model('String::insert_str')
def _string_insert_str(E, ci, s, i, t):
    v = deref(s)
    i = E.concretize(i)
    if i > len(v.buf) or not is_char_boundary(E, v.view(), i):
        raise Panic('String::insert_str: not a char boundary')
    v.buf[i:i] = list(items_of(t))
    return UNIT


@model('String::remove')
def _string_remove(E, ci, s, i):
    v = deref(s)
    i = E.concretize(i)
    if i >= len(v.buf) or not is_char_boundary(E, v.view(), i):
        raise Panic('String::remove: not a char boundary')
    c, n = decode_char(E, v.buf, i)
    del v.buf[i:i + n]
    return c


@model('String::retain')
def _string_retain(E, ci, s, f):
    v = deref(s)
    out = []
    for off, c, n in char_positions(E, v.view()):
        if E.branch(E.call_value(f, [c])):
            out += v.buf[off:off + n]
    v.buf[:] = out
    return UNIT


@model('String::replace_range')
def _string_replace_range(E, ci, s, r, t):
    v = deref(s)
    lo, hi = range_bounds(E, r, len(v.buf))
    if lo > hi or hi > len(v.buf) or not is_char_boundary(E, v.view(), lo) or not is_char_boundary(E, v.view(), hi):
        raise Panic('replace_range out of range')
    v.buf[lo:hi] = list(items_of(t))
    return UNIT


@model('str::char_count', 'str::chars_count')
def _str_char_count(E, ci, s):
    return USZ(len(char_positions(E, as_slice(s))))


@model('str::rsplit_terminator')
def _rsplit_terminator(E, ci, s, pat):
    s = as_slice(s)
    ps = pieces(s, find_all(E, s, pat))
    if ps and len(ps[-1]) == 0:
        ps.pop()
    return mk_list_iter(ps[::-1])


@model('slice::chunks_exact')
def _chunks_exact(E, ci, s, n):
    s = as_slice(s)
    n = E.concretize(n)
    if n == 0:
        raise Panic('chunk size must be non-zero')
    return mk_list_iter([s.sub(i, i + n) for i in range(0, len(s) - n + 1, n)])


@model('slice::rsplit', 'slice::splitn', 'slice::split_inclusive')
def _slice_split_variants(E, ci, s, *a):
    s = as_slice(s)
    pred = a[-1]
    limit = E.concretize(a[0]) if ci.method == 'splitn' else None
    out = []
    last = 0
    for i in range(len(s)):
        if limit is not None and len(out) >= limit - 1:
            break
        if E.branch(E.call_value(pred, [Ref(s.buf, s.a + i)])):
            out.append(s.sub(last, i + 1 if ci.method == 'split_inclusive' else i))
            last = i + 1
    if not (ci.method == 'split_inclusive' and last == len(s)):
        out.append(s.sub(last, len(s)))
    return mk_list_iter(out[::-1] if ci.method == 'rsplit' else out)


@model('slice::binary_search')
def _binary_search(E, ci, s, x):
    s = as_slice(s)
    for i, y in enumerate(s.items()):
        if E.branch(val_eq(E, y, x)):
            return ok(USZ(i))
        if E.branch(val_lt(E, x, y)):
            return err(USZ(i))
    return err(USZ(len(s)))


@model('slice::rotate_left')
def _rotate_left(E, ci, s, k):
    s = as_slice(s)
    k = E.concretize(k)
    if k > len(s):
        raise Panic('rotate_left: mid > len')
    it = s.items()
    s.buf[s.a:s.b] = it[k:] + it[:k]
    return UNIT


@model('Vec::dedup_by_key')
def _dedup_by_key(E, ci, v, f):
    v = deref(v)
    out = []
    for x in v.buf:
        if out:
            ka = E.call_value(f, [Ref([out[-1]], 0)])
            kb = E.call_value(f, [Ref([x], 0)])
            if E.branch(val_eq(E, ka, kb)):
                continue
        out.append(x)
    v.buf[:] = out
    return UNIT


@model('Vec::resize')
def _vec_resize(E, ci, v, n, x):
    v = deref(v)
    n = E.concretize(n)
    if n < len(v.buf):
        del v.buf[n:]
    else:
        v.buf.extend(clone_val(E, x) for _ in range(n - len(v.buf)))
    return UNIT


@model('Vec::swap_remove')
def _swap_remove(E, ci, v, i):
    v = deref(v)
    i = E.concretize(i)
    if i >= len(v.buf):
        raise Panic('swap_remove index out of bounds')
    v.buf[i], v.buf[-1] = v.buf[-1], v.buf[i]
    return v.buf.pop()


@model('Vec::split_first', 'Vec::split_last')
def _vec_split_fl(E, ci, v):
    return MODELS['slice::' + ci.method](E, ci, v)


@model('Vec::starts_with', 'Vec::ends_with')
def _vec_sw(E, ci, v, p):
    return MODELS['slice::' + ci.method](E, ci, v, p)


@model('Vec::join', 'Vec::concat')
def _vec_join(E, ci, v, *sep):
    return MODELS['slice::join'](E, ci, v, *sep)


@model('Vec::windows', 'Vec::chunks', 'Vec::split', 'Vec::reverse', 'Vec::to_vec', 'Vec::fill')
def _vec_forward(E, ci, v, *a):
    if ci.method == 'to_vec':
        return MODELS['slice::to_vec'](E, ci, v)
    return MODELS['slice::' + ci.method](E, ci, v, *a)


# ---- operator traits called explicitly (operands behind references, closures passed as fn items ...)
def _optrait(op):
    def f(E, ci, a, b):
        return E.binop(op, deref(a), deref(b))
    return f


for _tr, _m, _op in (('Add', 'add', 'Add'), ('Sub', 'sub', 'Sub'), ('Mul', 'mul', 'Mul'), ('Div', 'div', 'Div'),
                     ('Rem', 'rem', 'Rem'), ('Shr', 'shr', 'Shr'), ('Shl', 'shl', 'Shl'), ('BitAnd', 'bitand', 'BitAnd'),
                     ('BitOr', 'bitor', 'BitOr'), ('BitXor', 'bitxor', 'BitXor')):
    def _mk(_op=_op):
        def f(E, ci, a, b):
            a, b = deref(a), deref(b)
            if _op in ('Add', 'Sub', 'Mul') and isinstance(a, I):
                r = E.binop(_op + 'WithOverflow', a, b)
                if E.branch(r.fields[1]):
                    raise Panic('attempt to ' + _op.lower() + ' with overflow')
                return r.fields[0]
            if _op in ('Div', 'Rem') and isinstance(b, I) and E.branch(i_eq(b, I(b.t, 0))):
                raise Panic('attempt to divide by zero')
            return E.binop(_op, a, b)
        return f

    def _mka(_op=_op):
        def f(E, ci, a, b):
            cur = a.get()
            a.set(_mk(_op)(E, ci, cur, b))
            return UNIT
        return f
    MODELS[f'{_tr}::{_m}'] = _mk()
    MODELS[f'{_tr}Assign::{_m}_assign'] = _mka()


@model('<array as TryFrom>::try_from')
def _array_try_from(E, ci, s):
    import re as _re
    m = _re.search(r'\[[^;\]]+; (\d+)\]', ci.self_ty or ci.raw)
    if not m:
        raise ModelGap('array TryFrom: ' + ci.raw)
    n = int(m.group(1))
    v = deref(s)
    items = list(v.fields) if isinstance(v, Agg) and v.ty == 'array' else list(as_slice(v).items())
    if len(items) != n:
        return err(Agg('TryFromSliceError', 0, [UNIT]))
    return ok(Agg('array', 0, [clone_val(E, x) for x in items]))


def _int_from_bytes(big):
    def f(E, ci, arr):
        t = ci.self_last
        a = deref(arr)
        items = list(a.fields) if isinstance(a, Agg) else list(as_slice(a).items())
        if not big:
            items = items[::-1]
        if all(x.conc() for x in items):
            v = 0
            for x in items:
                v = (v << 8) | (x.v & 0xff)
            return mkint(t, v)
        return from_z(t, z3.Concat(*[x.v if not x.conc() else z3.BitVecVal(x.v & 0xff, 8) for x in items]))
    return f


def _int_to_bytes(big):
    def f(E, ci, x):
        x = deref(x)
        w = WIDTH[x.t]
        out = []
        for k in range(w // 8):
            if x.conc():
                out.append(U8((x.v >> (8 * k)) & 0xff))
            else:
                out.append(from_z('u8', z3.Extract(8 * k + 7, 8 * k, x.v)))
        if big:
            out = out[::-1]
        return Agg('array', 0, out)
    return f


for _t in ('u16', 'u32', 'u64', 'u128', 'usize', 'i16', 'i32', 'i64', 'i128', 'isize'):
    MODELS[_t + '::from_be_bytes'] = _int_from_bytes(True)
    MODELS[_t + '::from_le_bytes'] = _int_from_bytes(False)
    MODELS[_t + '::from_ne_bytes'] = _int_from_bytes(False)
    MODELS[_t + '::to_be_bytes'] = _int_to_bytes(True)
    MODELS[_t + '::to_le_bytes'] = _int_to_bytes(False)
    MODELS[_t + '::to_ne_bytes'] = _int_to_bytes(False)


@model('<String as AddAssign>::add_assign')
def _string_add_assign(E, ci, a, b):
    return MODELS['String::push_str'](E, ci, a, b)


@model('<String as Add>::add')
def _string_add(E, ci, a, b):
    # String + &str: consumes the left operand, appends
    v = deref(a)
    cell = [v]
    MODELS['String::push_str'](E, ci, Ref(cell, 0), b)
    return cell[0]


@model('Not::not')
def _not_trait(E, ci, a):
    a = deref(a)
    if isinstance(a, I):
        return mkint(a.t, ~a.v) if a.conc() else I(a.t, ~a.v)
    return b_not(a)


@model('Neg::neg')
def _neg_trait(E, ci, a):
    a = deref(a)
    return mkint(a.t, -a.v) if a.conc() else I(a.t, -a.v)


@model('slice::strip_prefix')
def _slice_strip_prefix(E, ci, s, p):
    s = as_slice(s)
    pre = items_of(p)
    if len(pre) <= len(s) and E.branch(b_and(*[val_eq(E, x, y) for x, y in zip(s.items(), pre)])):
        return some(s.sub(len(pre), len(s)))
    return none()


@model('slice::strip_suffix')
def _slice_strip_suffix(E, ci, s, p):
    s = as_slice(s)
    suf = items_of(p)
    n = len(s) - len(suf)
    if n >= 0 and E.branch(b_and(*[val_eq(E, x, y) for x, y in zip(s.items()[n:], suf)])):
        return some(s.sub(0, n))
    return none()
