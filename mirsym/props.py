"""Property -> harnesses, bounds, covers."""

PROPS = {
    'C01': {
        'kani': True,
        'harnesses': ['c01::h_tokeniser', 'c01::h_cmp', 'c01::h_glue', 'c01::h_token_strings'],
        'covers': {'c01::h_tokeniser': ['tokenised-something'], 'c01::h_cmp': ['true-verdict', 'false-verdict'],
                   'c01::h_token_strings': ['long-version', 'has-revision']},
    },
    'C02': {
        'harnesses': ['c02::h_compile', 'c02::h_match', 'c02::h_base_bytes'],
        'covers': {'c02::h_compile': ['accepted', 'rejected'], 'c02::h_match': ['match', 'two-bounds'],
                   'c02::h_base_bytes': ['same-base', 'matched']},
    },
    'C03': {
        'kani': True,
        'harnesses': ['c03::h_laws2', 'c03::h_trans', 'c03::h_api_laws', 'c03::h_two_bounds'],
        'covers': {'c03::h_laws2': ['lt', 'gt', 'eq'], 'c03::h_trans': ['chain'], 'c03::h_two_bounds': ['both-hold']},
    },
    'C18': {
        'harnesses': ['c18::h_any', 'c18::h_tokens'],
        'covers': {'c18::h_any': ['has-dash'], 'c18::h_tokens': ['has-dash', 'nb-digits']},
    },
    'C04': {
        'harnesses': ['c04::h_any', 'c04::h_skeletons', 'c04::h_nesting'],
        'covers': {'c04::h_any': ['compiles', 'rejected', 'matched'], 'c04::h_skeletons': ['compiles', 'matched', 'several-expansions'],
                   'c04::h_nesting': ['compiles', 'rejected', 'matched']},
    },
    'C05': {
        'assumptions': ['glob::Pattern::{new,matches} (glob 0.3.1, default MatchOptions) is a Python transcription (stub of a dependency); every sampled path witness is re-run against the real crate'],
        'harnesses': ['c05::h_inert', 'c05::h_glob', 'c05::h_glob_special'],
        'covers': {'c05::h_inert': ['matched', 'kind-alt', 'kind-dewey', 'kind-glob', 'kind-simple'],
                   'c05::h_glob': ['malformed', 'glob-matched', 'plain-matched'],
                   'c05::h_glob_special': ['special-matched', 'special-rejected']},
    },
    'C06': {
        'harnesses': ['c06::h_pair', 'c06::h_triple'],
        'covers': {'c06::h_pair': ['both-match'], 'c06::h_triple': ['winner']},
    },
    'C14': {
        'harnesses': ['c14::h_entry', 'c14::h_list_small', 'c14::h_list_lines'],
        'covers': {'c14::h_entry': ['ok', 'err'], 'c14::h_list_small': ['two-entries']},
    },
    'C15': {
        'harnesses': ['c15::h_all_kinds', 'c15::h_files', 'c15::h_repeats'],
        'covers': {'c15::h_files': ['some-file', 'ignored-file'], 'c15::h_repeats': ['repeated-dep']},
    },
    'C07': {
        'assumptions': ['HashMap iteration order is modelled as one of three orders (insertion, reverse, rotation) chosen nondeterministically', 'values contain no CR/LF (excluded by the property)'],
        'harnesses': ['c07::h_roundtrip'],
        'covers': {'c07::h_roundtrip': ['parsed-back']},
    },
    'C08': {
        'harnesses': ['c08::h_edits', 'c08::h_completed', 'c08::h_missing_with_optional'],
        'covers': {'c08::h_edits': ['accepted', 'rejected'], 'c08::h_completed': ['complete']},
    },
    'C09': {
        'harnesses': ['c09::h_cuts', 'c09::h_chunks', 'c09::h_malformed'],
        'covers': {'c09::h_cuts': ['cut-inside-char'], 'c09::h_chunks': ['chunked'], 'c09::h_malformed': ['failed']},
    },
    'C10': {
        'harnesses': ['c10::h_roundtrip_text', 'c10::h_roundtrip_api'],
        'covers': {'c10::h_roundtrip_text': ['has-patch', 'two-distfiles'], 'c10::h_roundtrip_api': ['api-patch']},
    },
    'C11': {
        'harnesses': ['c10::h_classify', 'c10::h_lines', 'c10::h_interleave'],
        'covers': {'c10::h_classify': ['patch', 'dist'], 'c10::h_lines': ['some-dist', 'some-patch'],
                   'c10::h_interleave': ['interleaved']},
    },
    'C19': {
        'harnesses': ['c19::h_pkgpath_any', 'c19::h_pkgpath_segments', 'c19::h_depend'],
        'covers': {'c19::h_pkgpath_any': ['accepted', 'rejected'], 'c19::h_pkgpath_segments': ['accepted', 'rejected'],
                   'c19::h_depend': ['accepted', 'rejected']},
    },
    'C16': {
        'assumptions': ['serde plumbing (StrDeserializer, deserialize_str -> visit_str, de::Error::custom / missing_field) is modelled as the direct call it is', 'BufRead::lines modelled per its documented contract on top of fill_buf/consume'],
        'harnesses': ['c16::h_records', 'c16::h_io_error'],
        'covers': {'c16::h_records': ['ok-two-records', 'rejected'], 'c16::h_io_error': ['error-injected', 'no-error']},
    },
    'C12': {
        'assumptions': ['file system = in-memory stub (File::open, metadata().len(), Read for File); real kernel behaviour (permissions, symlinks, races) is outside the claim', 'digests are uninterpreted functions per algorithm and input length, assumed collision-free on the inputs of a path; that they are the standard algorithms rests on the RustCrypto crates (C13 h_vectors cross-checks OpenSSL vectors)'],
        'harnesses': ['c12::h_verify', 'c12::h_find'],
        'covers': {'c12::h_verify': ['size-ok', 'size-mismatch', 'checksum-ok', 'checksum-mismatch'],
                   'c12::h_find': ['found', 'not-found']},
    },
    'C13': {
        'assumptions': ['digests are uninterpreted functions per algorithm and input length, assumed collision-free on the inputs of a path; natively sym::digest_hex calls the RustCrypto hashers directly', 'readers follow the std::io::Read contract: they return at most buf.len() bytes; io::copy / BufReader / read_until are modelled per their documented contract (retry on Interrupted, propagate other errors, stop at Ok(0))'],
        'harnesses': ['c13::h_file', 'c13::h_file_algs', 'c13::h_str', 'c13::h_patch', 'c13::h_patch_algs', 'c13::h_names', 'c13::h_vectors'],
        'covers': {'c13::h_file': ['hard-error', 'hashed'], 'c13::h_str': ['hashed'], 'c13::h_patch': ['line-removed'],
                   'c13::h_names': ['parsed', 'rejected'], 'c13::h_vectors': ['vector']},
    },
    'C20': {
        'assumptions': ['file system = in-memory stub (is_dir / is_file / exists / read_dir in every order / read_to_string); real kernel behaviour is outside the claim'],
        'harnesses': ['c20::h_iterate', 'c20::h_filenames', 'c20::h_is_valid'],
        'covers': {'c20::h_iterate': ['two-packages', 'optional-file-read'], 'c20::h_filenames': ['known', 'unknown'],
                   'c20::h_is_valid': ['valid']},
    },
    'C17': {
        'assumptions': ["'promptly' is claimed only as: every path terminates within the interpreter's step cap (3M MIR steps)", 'file-system and reader stubs as in C20 / C13'],
        'harnesses': ['c17::h_pattern', 'c17::h_pattern_tokens', 'c17::h_names', 'c17::h_revision_digits', 'c17::h_summary_text', 'c17::h_summary_stream', 'c17::h_bytes_parsers', 'c17::h_distinfo_line', 'c17::h_plist_line', 'c17::h_scanindex', 'c17::h_metadata', 'c17::h_pkgdb', 'c17::h_summary_calls', 'c17::h_long'],
        'covers': {'c17::h_pkgdb': ['package-listed']},
        'max_paths': {'quick': 400000, 'thorough': 3000000},
    },
}
