"""Property -> harnesses, bounds, covers."""

PROPS = {
    'C01': {
        'harnesses': ['c01::h_tokeniser', 'c01::h_cmp', 'c01::h_glue'],
        'covers': {'c01::h_tokeniser': ['tokenised-something'], 'c01::h_cmp': ['true-verdict', 'false-verdict']},
    },
    'C02': {
        'harnesses': ['c02::h_compile', 'c02::h_match'],
        'covers': {'c02::h_compile': ['accepted', 'rejected'], 'c02::h_match': ['match', 'two-bounds']},
    },
    'C03': {
        'harnesses': ['c03::h_laws2', 'c03::h_trans', 'c03::h_api_laws', 'c03::h_two_bounds'],
        'covers': {'c03::h_laws2': ['lt', 'gt', 'eq'], 'c03::h_trans': ['chain'], 'c03::h_two_bounds': ['both-hold']},
    },
    'C18': {
        'harnesses': ['c18::h_any', 'c18::h_tokens'],
        'covers': {'c18::h_any': ['has-dash'], 'c18::h_tokens': ['has-dash', 'nb-digits']},
    },
}
