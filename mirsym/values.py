"""Value representation for the MIR symbolic interpreter.

Along one path all *structure* is concrete (lengths, variants, shapes); only scalar leaves
(`I.v`, booleans) may be z3 terms.
"""
import z3

WIDTH = {'u8': 8, 'i8': 8, 'u16': 16, 'i16': 16, 'u32': 32, 'i32': 32, 'u64': 64, 'i64': 64,
         'usize': 64, 'isize': 64, 'u128': 128, 'i128': 128, 'char': 32}


def signed(t):
    return t[0] == 'i'


class Panic(Exception):
    """A Rust panic on the current path."""


class Hang(Exception):
    """the interpreter's step cap was exceeded on one path"""


class Infeasible(Exception):
    """The current path condition became unsatisfiable (assume(false))."""


class ModelGap(Exception):
    """Something the engine / models do not support: the run is inconclusive, never 'pass'."""


class PathAbort(Exception):
    """Stop this path quietly (used by sym::assume when infeasible)."""


_BV_CACHE = {}


class I:
    """integer / char scalar; v is a Python int (canonical range of t) or a z3 BitVec."""
    __slots__ = ('t', 'v')

    def __init__(self, t, v):
        self.t = t
        self.v = v

    def conc(self):
        return isinstance(self.v, int)

    def z(self):
        v = self.v
        if isinstance(v, int):
            k = (v, self.t)
            r = _BV_CACHE.get(k)
            if r is None:
                r = _BV_CACHE[k] = z3.BitVecVal(v, WIDTH[self.t])
            return r
        return v

    def __repr__(self):
        return f'{self.v}_{self.t}'


def mkint(t, x):
    """normalise python int into the canonical range of type t"""
    w = WIDTH[t]
    x &= (1 << w) - 1
    if signed(t) and x >> (w - 1):
        x -= 1 << w
    return I(t, x)


def from_z(t, zv):
    """wrap a z3 bitvec, folding constants"""
    if z3.is_bv_value(zv):
        return mkint(t, zv.as_long())
    zs = z3.simplify(zv)
    if z3.is_bv_value(zs):
        return mkint(t, zs.as_long())
    return I(t, zs)


def U8(x):
    return I('u8', x)


def USZ(x):
    return I('usize', x)


class Agg:
    """struct / enum / tuple / array / closure"""
    __slots__ = ('ty', 'variant', 'fields')

    def __init__(self, ty, variant, fields):
        self.ty = ty
        self.variant = variant
        self.fields = fields

    def __repr__(self):
        return f'{self.ty}#{self.variant}{self.fields}'


class Closure(Agg):
    """closure value; `body` is the MIR Fn of its body (spans alone are ambiguous for macro-made closures)"""
    __slots__ = ('body',)

    def __init__(self, ty, fields, body):
        Agg.__init__(self, ty, 0, fields)
        self.body = body


class Ref:
    """thin pointer to slot cont[key] (cont: list or dict)"""
    __slots__ = ('cont', 'key')

    def __init__(self, cont, key):
        self.cont = cont
        self.key = key

    def get(self):
        return self.cont[self.key]

    def set(self, v):
        self.cont[self.key] = v

    def __repr__(self):
        return f'&{self.cont[self.key]!r}'


class Slice:
    """fat pointer: &str / &[T] / &Path / &OsStr view of buf[a:b]"""
    __slots__ = ('buf', 'a', 'b', 'kind')

    def __init__(self, buf, a, b, kind='slice'):
        self.buf = buf
        self.a = a
        self.b = b
        self.kind = kind

    def items(self):
        return self.buf[self.a:self.b]

    def __len__(self):
        return self.b - self.a

    def sub(self, i, j, kind=None):
        return Slice(self.buf, self.a + i, self.a + j, kind or self.kind)

    def __repr__(self):
        return f'Slice<{self.kind}>{show_bytes(self.items())}'


class VecV:
    """owned growable buffer: Vec<T> / String / OsString / PathBuf"""
    __slots__ = ('buf', 'kind')

    def __init__(self, buf=None, kind='Vec'):
        self.buf = buf if buf is not None else []
        self.kind = kind

    def view(self, kind=None):
        k = kind or {'String': 'str', 'OsString': 'OsStr', 'PathBuf': 'Path'}.get(self.kind, 'slice')
        return Slice(self.buf, 0, len(self.buf), k)

    def __repr__(self):
        return f'{self.kind}{show_bytes(self.buf)}'


class MapV:
    """association list model of HashMap / BTreeMap / IndexMap (insertion ordered)"""
    __slots__ = ('entries', 'kind')

    def __init__(self, kind):
        self.entries = []   # list of [key, value] (mutable pairs)
        self.kind = kind

    def __repr__(self):
        return f'{self.kind}{self.entries}'


class Obj:
    """opaque model object (iterators, formatter, readers ...)"""

    def __init__(self, kind, **kw):
        self.kind = kind
        self.__dict__.update(kw)

    def __repr__(self):
        return f'<{self.kind}>'


class FnItem:
    __slots__ = ('path',)

    def __init__(self, path):
        self.path = path

    def __repr__(self):
        return f'fn {self.path}'


class Transparent:
    """uninitialised box: any projection stays on it until something is stored"""

    def __init__(self):
        self.cell = [self]


UNIT = Agg('()', 0, [])


def show_bytes(items):
    try:
        if all(isinstance(x, I) and x.t == 'u8' for x in items) and items:
            return '[' + ' '.join(('%02x' % x.v) if x.conc() else '??' for x in items) + ']'
    except Exception:
        pass
    return repr(list(items))


def deref(x):
    while isinstance(x, Ref):
        try:
            x = x.cont[x.key]
        except (KeyError, IndexError):
            return None
    return x


def some(x):
    return Agg('Option', 1, [x])


def none():
    return Agg('Option', 0, [])


def ok(x):
    return Agg('Result', 0, [x])


def err(x):
    return Agg('Result', 1, [x])


_MEMO = {}
_PIN = []


def _key(x):
    """hashable identity of an operand: python scalars by value, z3 refs by id (pinned)"""
    if isinstance(x, (int, bool, str)):
        return x
    return id(x)


def memo(f):
    """memoise an expression constructor on operand identity; z3 terms are built once and shared
    between paths (variables are cached by name, so identical sub-terms recur on every replay)"""
    name = f.__name__

    def g(*args):
        k = (name,) + tuple(_key(a) for a in args)
        r = _MEMO.get(k)
        if r is None:
            r = f(*args)
            _MEMO[k] = (r,)
            _PIN.append(args)
            return r
        return r[0]
    g.__name__ = name
    return g


def is_conc_bool(b):
    return isinstance(b, bool)


@memo
def _z_not(a):
    return z3.Not(a)


def b_not(a):
    if isinstance(a, bool):
        return not a
    return _z_not(a)


@memo
def _z_and(*xs):
    return z3.And(*xs)


@memo
def _z_or(*xs):
    return z3.Or(*xs)


@memo
def _z_eq(a, b):
    return a == b


@memo
def _z_cmp(op, sg, x, y):
    if op == 'Eq':
        return x == y
    if op == 'Ne':
        return x != y
    if op == 'Lt':
        return (x < y) if sg else z3.ULT(x, y)
    if op == 'Le':
        return (x <= y) if sg else z3.ULE(x, y)
    if op == 'Gt':
        return (x > y) if sg else z3.UGT(x, y)
    if op == 'Ge':
        return (x >= y) if sg else z3.UGE(x, y)
    raise ModelGap('cmp ' + op)


def b_and(*xs):
    out = []
    for x in xs:
        if isinstance(x, bool):
            if not x:
                return False
        else:
            out.append(x)
    if not out:
        return True
    return out[0] if len(out) == 1 else _z_and(*out)


def b_or(*xs):
    out = []
    for x in xs:
        if isinstance(x, bool):
            if x:
                return True
        else:
            out.append(x)
    if not out:
        return False
    return out[0] if len(out) == 1 else _z_or(*out)


def b_eq(a, b):
    if isinstance(a, bool) and isinstance(b, bool):
        return a == b
    if isinstance(a, bool):
        return b if a else _z_not(b)
    if isinstance(b, bool):
        return a if b else _z_not(a)
    return _z_eq(a, b)


def b_ite(c, a, b):
    """ite on bools"""
    if isinstance(c, bool):
        return a if c else b
    return b_or(b_and(c, a), b_and(b_not(c), b))


def zbool(b):
    return z3.BoolVal(b) if isinstance(b, bool) else b


def i_eq(a, b):
    """equality of two I scalars -> bool / z3 Bool"""
    if a.conc() and b.conc():
        return a.v == b.v
    return _z_eq(a.z(), b.z())


def i_cmp(op, a, b):
    sg = signed(a.t)
    if a.conc() and b.conc():
        x, y = a.v, b.v
        return {'Eq': x == y, 'Ne': x != y, 'Lt': x < y, 'Le': x <= y, 'Gt': x > y, 'Ge': x >= y}[op]
    return _z_cmp(op, sg, a.z(), b.z())


def i_ite(c, a, b):
    if isinstance(c, bool):
        return a if c else b
    return I(a.t, z3.If(c, a.z(), b.z()))


def in_range(x, lo, hi):
    """lo <= x <= hi (unsigned) for I scalar x"""
    if x.conc():
        return lo <= x.v <= hi
    return _z_range(x.v, lo, hi, WIDTH[x.t])


@memo
def _z_range(v, lo, hi, w):
    if lo == hi:
        return v == z3.BitVecVal(lo, w)
    if lo == 0:
        return z3.ULE(v, z3.BitVecVal(hi, w))
    return z3.And(z3.UGE(v, z3.BitVecVal(lo, w)), z3.ULE(v, z3.BitVecVal(hi, w)))


def bytes_of(pybytes):
    return [I('u8', b) for b in pybytes]


def conc_bytes(items):
    """python bytes of a fully concrete u8 list, else None"""
    out = bytearray()
    for x in items:
        if not x.conc():
            return None
        out.append(x.v)
    return bytes(out)
