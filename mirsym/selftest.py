"""Self-test: parser + models on small fixed inputs (no cargo needed)."""
import sys
from .mirparse import parse_stmt
from .program import callinfo
from .models_fmt import parse_template


def main():
    assert parse_stmt('_1 = AddWithOverflow(copy _2, const 1_usize);')[0] == 'assign'
    assert parse_stmt('switchInt(move _3) -> [0: bb1, otherwise: bb2];')[0] == 'switch'
    ci = callinfo('<std::string::String as std::ops::Deref>::deref')
    assert ci.keys[0] == '<String as Deref>::deref', ci.keys
    ci = callinfo('core::str::<impl str>::split_once::<char>')
    assert ci.keys[0] == 'str::split_once', ci.keys
    assert parse_template(b'\x06hello \xc0\x01\n\x00') == [('lit', b'hello '), ('arg', 0, None, None, None, 0), ('lit', b'\n')]
    print('mirsym selftest ok')


if __name__ == '__main__':
    sys.exit(main())
