"""Environment stubs: readers / writers, in-memory file system, digest recorder, serde glue."""
import z3

from .values import *
from .program import type_last, generic_args, strip_generics
from .models import MODELS, PRIORITY, model, as_slice, items_of, pystr, lit, bytes_eq
from .models_iter import Iter, ListIter, iter_of, drain_iter


# ============================================================================ glob crate (0.3.1) model
# A Python transcription of glob::Pattern::{new, matches} (default MatchOptions).  It is a stub of a
# dependency, not of pkgsrc-rs code; every path witness is re-executed natively against the real crate.
def _glob_err(pos, msg):
    return err(Agg('glob::PatternError', 0, [USZ(pos), Slice(lit(msg), 0, len(msg), 'str')]))


def _ceq(E, c, ch):
    return E.branch(i_eq(c, I('char', ord(ch))))


@model('glob::Pattern::new')
def _glob_new(E, ci, s):
    from .models_core import char_positions
    sl = as_slice(s)
    chars = [c for _, c, _ in char_positions(E, sl)]
    n = len(chars)
    tokens = []
    i = 0
    while i < n:
        c = chars[i]
        if _ceq(E, c, '?'):
            tokens.append(('any',))
            i += 1
        elif _ceq(E, c, '*'):
            old = i
            while i < n and _ceq(E, chars[i], '*'):
                i += 1
            count = i - old
            if count > 2:
                return _glob_err(old + 2, 'wildcards are either regular `*` or recursive `**`')
            if count == 2:
                if i == 2 or _ceq(E, chars[i - count - 1], '/'):
                    if i < n and _ceq(E, chars[i], '/'):
                        i += 1
                    elif i == n:
                        pass
                    else:
                        return _glob_err(i, 'recursive wildcards must form a single path component')
                else:
                    return _glob_err(old - 1, 'recursive wildcards must form a single path component')
                if not (len(tokens) > 1 and tokens[-1] == ('recseq',)):
                    tokens.append(('recseq',))
            else:
                tokens.append(('seq',))
        elif _ceq(E, c, '['):
            done = False
            if i + 4 <= n and _ceq(E, chars[i + 1], '!'):
                j = None
                for k, x in enumerate(chars[i + 3:]):
                    if _ceq(E, x, ']'):
                        j = k
                        break
                if j is not None:
                    tokens.append(('except', _glob_specs(E, chars[i + 2:i + 3 + j])))
                    i += j + 4
                    done = True
            elif i + 3 <= n and not _ceq(E, chars[i + 1], '!'):
                j = None
                for k, x in enumerate(chars[i + 2:]):
                    if _ceq(E, x, ']'):
                        j = k
                        break
                if j is not None:
                    tokens.append(('within', _glob_specs(E, chars[i + 1:i + 2 + j])))
                    i += j + 3
                    done = True
            if not done:
                return _glob_err(i, 'invalid range pattern')
        else:
            tokens.append(('char', c))
            i += 1
    return ok(Obj('glob::Pattern', tokens=tokens, original=VecV(list(sl.items()), 'String')))


def _glob_specs(E, s):
    cs = []
    i = 0
    while i < len(s):
        if i + 3 <= len(s) and _ceq(E, s[i + 1], '-'):
            cs.append(('range', s[i], s[i + 2]))
            i += 3
        else:
            cs.append(('single', s[i]))
            i += 1
    return cs


def _in_specs(E, specs, c):
    for sp in specs:
        if sp[0] == 'single':
            if E.branch(i_eq(c, sp[1])):
                return True
        else:
            if E.branch(b_and(i_cmp('Ge', c, sp[1]), i_cmp('Le', c, sp[2]))):
                return True
    return False


_GLOB_DEFAULT = {'cs': True, 'rls': False, 'rld': False}


def _glob_matches_from(E, tokens, follows_sep, chars, pos, i, o=_GLOB_DEFAULT):
    """-> 'match' | 'sub' | 'entire'   (o: MatchOptions)"""
    for ti in range(i, len(tokens)):
        tok = tokens[ti]
        if tok[0] in ('seq', 'recseq'):
            r = _glob_matches_from(E, tokens, follows_sep, chars, pos, ti + 1, o)
            if r != 'sub':
                return r
            while pos < len(chars):
                c = chars[pos]
                pos += 1
                if follows_sep and o['rld'] and _ceq(E, c, '.'):
                    return 'sub'
                follows_sep = _ceq(E, c, '/')
                if tok[0] == 'recseq' and not follows_sep:
                    continue
                if tok[0] == 'seq' and o['rls'] and follows_sep:
                    return 'sub'
                r = _glob_matches_from(E, tokens, follows_sep, chars, pos, ti + 1, o)
                if r != 'sub':
                    return r
        else:
            if pos >= len(chars):
                return 'entire'
            c = chars[pos]
            pos += 1
            is_sep = False if c.conc() and c.v != 47 else _ceq(E, c, '/')
            if tok[0] in ('any', 'within', 'except') and ((o['rls'] and is_sep)
                                                          or (follows_sep and o['rld'] and _ceq(E, c, '.'))):
                okk = False
            elif tok[0] == 'any':
                okk = True
            elif tok[0] in ('within', 'except'):
                if not o['cs']:
                    raise ModelGap('glob: case-insensitive character classes are not modelled')
                okk = _in_specs(E, tok[1], c) == (tok[0] == 'within')
            elif not o['cs']:
                from .models_core import ascii_lower
                okk = E.branch(i_eq(ascii_lower(c), ascii_lower(tok[1])))
            else:
                okk = E.branch(i_eq(c, tok[1]))
            if not okk:
                return 'sub'
            follows_sep = is_sep
    return 'match' if pos >= len(chars) else 'sub'


@model('glob::Pattern::matches')
def _glob_matches(E, ci, p, s):
    from .models_core import char_positions
    p = deref(p)
    chars = [c for _, c, _ in char_positions(E, as_slice(s))]
    return _glob_matches_from(E, p.tokens, True, chars, 0, 0) == 'match'


@model('glob::Pattern::matches_with')
def _glob_matches_with(E, ci, p, s, opts):
    from .models_core import char_positions
    p = deref(p)
    opts = deref(opts)
    f = [E.branch(x) if not isinstance(x, bool) else x for x in opts.fields]
    o = {'cs': f[0], 'rls': f[1], 'rld': f[2]}       # field order of glob::MatchOptions
    chars = [c for _, c, _ in char_positions(E, as_slice(s))]
    return _glob_matches_from(E, p.tokens, True, chars, 0, 0, o) == 'match'


@model('glob::MatchOptions::new', '<MatchOptions as Default>::default')
def _glob_options_new(E, ci):
    return Agg('glob::MatchOptions', 0, [True, False, False])


@model('glob::Pattern::as_str')
def _glob_as_str(E, ci, p):
    return deref(p).original.view()


# ============================================================================ serde glue (scanindex)
@model('StrDeserializer::new')
def _strdeser_new(E, ci, s):
    return Obj('StrDeserializer', s=as_slice(s))


@model('Deserializer::deserialize_str', 'Deserializer::deserialize_string', 'Deserializer::deserialize_any')
def _deserialize_str(E, ci, d, visitor):
    d = deref(d)
    if not (isinstance(d, Obj) and d.kind == 'StrDeserializer'):
        raise ModelGap('deserialize_str on ' + repr(d))
    v = deref(visitor)
    ty = v.ty if isinstance(v, Agg) else None
    cands = E.prog.index.get((ty, 'Visitor', 'visit_str'))
    if not cands:
        raise ModelGap('no visit_str for ' + repr(v))
    return E.call_fn(cands[0], [visitor, d.s], ci)


def _serde_err(items):
    return Obj('serde::Error', msg=list(items))


@model('Error::missing_field')
def _missing_field(E, ci, name):
    return _serde_err(lit('missing field `') + list(items_of(name)) + lit('`'))


@model('Error::custom')
def _serde_custom(E, ci, msg):
    from .models_fmt import display_to_items
    return _serde_err(display_to_items(E, msg))


@model('<serde::Error as Display>::fmt')
def _serde_err_display(E, ci, e, f):
    deref(f).write(E, list(deref(e).msg))
    return ok(UNIT)


# ============================================================================ readers / writers
class SliceReader(Obj):
    """`&[u8]` used as Read / BufRead"""

    def __init__(self, s):
        self.kind = 'SliceReader'
        self.s = s
        self.pos = 0

    def fill_buf(self, E):
        return ok(self.s.sub(self.pos, len(self.s)))

    def consume(self, E, n):
        self.pos += n

    def read(self, E, buf):
        n = min(len(buf), len(self.s) - self.pos)
        for i in range(n):
            buf.buf[buf.a + i] = self.s.buf[self.s.a + self.pos + i]
        self.pos += n
        return ok(USZ(n))


class BufReaderObj(Obj):
    """std::io::BufReader<R>: fill_buf issues one inner read into an 8 KiB buffer when empty"""
    CAP = 64     # model capacity: data sets in the harnesses are far smaller than this

    def __init__(self, inner):
        self.kind = 'BufReader'
        self.inner = inner
        self.buf = []
        self.pos = 0

    def fill_buf(self, E):
        if self.pos >= len(self.buf):
            scratch = [U8(0) for _ in range(self.CAP)]
            r = reader_read(E, self.inner, Slice(scratch, 0, self.CAP, 'slice'))
            if r.variant == 1:
                return r
            n = E.concretize(r.fields[0])
            if n > self.CAP:
                raise Panic('reader returned more than the buffer length')
            self.buf = scratch[:n]
            self.pos = 0
        return ok(Slice(self.buf, self.pos, len(self.buf), 'slice'))

    def consume(self, E, n):
        self.pos = min(self.pos + n, len(self.buf))

    def read(self, E, buf):
        r = self.fill_buf(E)
        if r.variant == 1:
            return r
        av = r.fields[0]
        n = min(len(av), len(buf))
        for i in range(n):
            buf.buf[buf.a + i] = av.buf[av.a + i]
        self.consume(E, n)
        return ok(USZ(n))


def _reader_obj(E, r):
    """normalise a reader argument (by value or &mut) to (python object | crate value ref)"""
    v = deref(r)
    if isinstance(v, (SliceReader, BufReaderObj)):
        return v
    if isinstance(v, Slice):
        # a `&[u8]` reader held in a slot: replace the slot content by a stateful reader
        sr = SliceReader(v)
        x = r
        while isinstance(x, Ref) and isinstance(x.get(), Ref):
            x = x.get()
        if isinstance(x, Ref):
            x.set(sr)
        return sr
    return None


def _crate_call(E, r, trait, method, args):
    v = deref(r)
    ty = v.ty if isinstance(v, Agg) else getattr(v, 'kind', None)
    cands = E.prog.index.get((ty, trait, method))
    if not cands:
        raise ModelGap(f'no {trait}::{method} for {v!r}')
    x = r
    while isinstance(x, Ref) and isinstance(x.get(), Ref):
        x = x.get()
    if not isinstance(x, Ref):
        x = Ref([v], 0)
    return E.call_fn(cands[0], [x] + args, None)


def reader_read(E, r, buf):
    o = _reader_obj(E, r)
    if o is not None:
        return o.read(E, buf)
    v = deref(r)
    if isinstance(v, Obj) and v.kind == 'File':
        return v.read(E, buf)
    return _crate_call(E, r, 'Read', 'read', [buf])


def reader_fill_buf(E, r):
    o = _reader_obj(E, r)
    if o is not None:
        return o.fill_buf(E)
    return _crate_call(E, r, 'BufRead', 'fill_buf', [])


def reader_consume(E, r, n):
    o = _reader_obj(E, r)
    if o is not None:
        return o.consume(E, n)
    return _crate_call(E, r, 'BufRead', 'consume', [USZ(n)])


def is_interrupted(E, e):
    e = deref(e)
    k = e.fields[0]
    return k.variant == E.prog.enums['ErrorKind']['Interrupted']


def read_until(E, r, delim):
    """std::io::read_until: -> ('ok', [bytes]) | ('err', e); retries on Interrupted"""
    out = []
    while True:
        fr = reader_fill_buf(E, r)
        if fr.variant == 1:
            if is_interrupted(E, fr.fields[0]):
                continue
            return 'err', fr.fields[0], out
        av = as_slice(fr.fields[0])
        n = len(av)
        found = None
        for i in range(n):
            if E.branch(i_eq(av.buf[av.a + i], delim)):
                found = i
                break
        if found is not None:
            out += av.items()[:found + 1]
            reader_consume(E, r, found + 1)
            return 'ok', None, out
        out += av.items()
        reader_consume(E, r, n)
        if n == 0:
            return 'ok', None, out


class LinesIter(Iter):
    def __init__(self, r, mode, delim=None):
        self.r = r
        self.mode = mode     # 'lines' | 'split'
        self.delim = delim

    def next(self, E):
        from .models import utf8_valid_prefix
        if self.mode == 'lines':
            st, e, out = read_until(E, self.r, U8(10))
            if st == 'err':
                return some(err(e))
            if not out:
                return none()
            good, _ = utf8_valid_prefix(E, out)
            if not good:
                from .models_io import io_error
                return some(err(io_error(E, 'InvalidData', Slice(lit('stream did not contain valid UTF-8'), 0, 34, 'str'))))
            if E.branch(i_eq(out[-1], U8(10))):
                out.pop()
                if out and E.branch(i_eq(out[-1], U8(13))):
                    out.pop()
            return some(ok(VecV(out, 'String')))
        st, e, out = read_until(E, self.r, self.delim)
        if st == 'err':
            return some(err(e))
        if not out:
            return none()
        if E.branch(i_eq(out[-1], self.delim)):
            out.pop()
        return some(ok(VecV(out, 'Vec')))


@model('BufRead::lines')
def _bufread_lines(E, ci, r):
    if isinstance(deref(r), Slice):
        r = Ref([SliceReader(deref(r))], 0)
    elif not isinstance(r, Ref):
        r = Ref([r], 0)
    return LinesIter(r, 'lines')


@model('BufRead::split')
def _bufread_split(E, ci, r, d):
    if isinstance(deref(r), Slice):
        r = Ref([SliceReader(deref(r))], 0)
    elif not isinstance(r, Ref):
        r = Ref([r], 0)
    return LinesIter(r, 'split', d)


@model('BufReader::new', 'BufReader::with_capacity')
def _bufreader_new(E, ci, *a):
    inner = a[-1]
    if isinstance(inner, Slice):
        inner = Ref([SliceReader(inner)], 0)
    elif not isinstance(inner, Ref):
        inner = Ref([inner], 0)
    return BufReaderObj(inner)


@model('Read::read')
def _read_read(E, ci, r, buf):
    return reader_read(E, r, as_slice(buf))


@model('BufRead::fill_buf')
def _bufread_fill_buf(E, ci, r):
    return reader_fill_buf(E, r)


@model('BufRead::consume')
def _bufread_consume(E, ci, r, n):
    reader_consume(E, r, E.concretize(n))
    return UNIT


def read_all(E, r):
    """default_read_to_end: loop read until Ok(0); retry on Interrupted"""
    out = []
    while True:
        scratch = [U8(0) for _ in range(32)]
        rr = reader_read(E, r, Slice(scratch, 0, 32, 'slice'))
        if rr.variant == 1:
            if is_interrupted(E, rr.fields[0]):
                continue
            return 'err', rr.fields[0], out
        n = E.concretize(rr.fields[0])
        if n == 0:
            return 'ok', None, out
        if n > 32:
            raise Panic('reader returned more than the buffer length')
        out += scratch[:n]


@model('Read::read_to_end')
def _read_to_end(E, ci, r, v):
    st, e, out = read_all(E, r)
    deref(v).buf.extend(out)
    if st == 'err':
        return err(e)
    return ok(USZ(len(out)))


@model('Read::read_to_string')
def _read_to_string(E, ci, r, v):
    from .models import utf8_valid_prefix
    from .models_io import io_error
    st, e, out = read_all(E, r)
    if st == 'err':
        return err(e)
    good, _ = utf8_valid_prefix(E, out)
    if not good:
        return err(io_error(E, 'InvalidData', Slice(lit('stream did not contain valid UTF-8'), 0, 34, 'str')))
    deref(v).buf.extend(out)
    return ok(USZ(len(out)))


def writer_write_all(E, w, items):
    v = deref(w)
    if isinstance(v, VecV):
        v.buf.extend(items)
        return ok(UNIT)
    if isinstance(v, Obj) and v.kind == 'Hasher':
        v.data.extend(items)
        return ok(UNIT)
    # crate type implementing io::Write: write() may be partial
    pos = 0
    while pos < len(items):
        r = _crate_call(E, w, 'Write', 'write', [Slice(items, pos, len(items), 'slice')])
        if r.variant == 1:
            if is_interrupted(E, r.fields[0]):
                continue
            return r
        n = E.concretize(r.fields[0])
        if n == 0:
            from .models_io import io_error
            return err(io_error(E, 'WriteZero', Slice(lit('failed to write whole buffer'), 0, 28, 'str')))
        pos += n
    return ok(UNIT)


@model('io::copy')
def _io_copy(E, ci, r, w):
    total = 0
    while True:
        scratch = [U8(0) for _ in range(32)]
        rr = reader_read(E, r, Slice(scratch, 0, 32, 'slice'))
        if rr.variant == 1:
            if is_interrupted(E, rr.fields[0]):
                continue
            return rr
        n = E.concretize(rr.fields[0])
        if n == 0:
            return ok(I('u64', total))
        if n > 32:
            raise Panic('reader returned more than the buffer length')
        wr = writer_write_all(E, w, scratch[:n])
        if wr.variant == 1:
            return wr
        total += n


@model('Write::write_all')
def _write_all(E, ci, w, buf):
    return writer_write_all(E, w, list(items_of(buf)))


@model('Write::write')
def _write_write(E, ci, w, buf):
    v = deref(w)
    items = list(items_of(buf))
    if isinstance(v, VecV) or (isinstance(v, Obj) and v.kind == 'Hasher'):
        writer_write_all(E, w, items)
        return ok(USZ(len(items)))
    return _crate_call(E, w, 'Write', 'write', [as_slice(buf)])


@model('Write::flush')
def _write_flush(E, ci, w):
    v = deref(w)
    if isinstance(v, (VecV, Obj)):
        return ok(UNIT)
    return _crate_call(E, w, 'Write', 'flush', [])


# ============================================================================ digests (uninterpreted)
HASHERS = {'Blake2s256': ('BLAKE2s', 32), 'Md5': ('MD5', 16), 'Ripemd160': ('RMD160', 20), 'Sha1': ('SHA1', 20),
           'Sha256': ('SHA256', 32), 'Sha512': ('SHA512', 64),
           'Blake2sVar': ('BLAKE2s', 32), 'CoreWrapper': (None, None)}
ALG_BY_INDEX = ['BLAKE2s', 'MD5', 'RMD160', 'SHA1', 'SHA256', 'SHA512']
ALG_LEN = {'BLAKE2s': 32, 'MD5': 16, 'RMD160': 20, 'SHA1': 20, 'SHA256': 32, 'SHA512': 64}


def digest_bytes(E, alg, data):
    """output bytes of the (uninterpreted) hash function alg over the scalar list data"""
    n = len(data)
    olen = ALG_LEN[alg]
    if all(b.conc() for b in data) and getattr(E, 'concrete_digests', True):
        import hashlib
        raw = bytes(b.v for b in data)
        name = {'BLAKE2s': 'blake2s', 'MD5': 'md5', 'RMD160': 'ripemd160', 'SHA1': 'sha1', 'SHA256': 'sha256',
                'SHA512': 'sha512'}[alg]
        try:
            out = lit(hashlib.new(name, raw).digest())
            _collision_free(E, alg, list(data), out)
            return out
        except Exception:
            pass
    out = []
    args = [b.z() for b in data]
    for j in range(olen):
        key = (alg, n, j)
        f = E.ufs.get(key)
        if f is None:
            f = z3.Function(f'H_{alg}_{n}_{j}', *([z3.BitVecSort(8)] * n + [z3.BitVecSort(8)])) if n else \
                z3.BitVec(f'H_{alg}_0_{j}', 8)
            E.ufs[key] = f
        out.append(I('u8', f(*args) if n else f))
    _collision_free(E, alg, list(data), out)
    return out


def _collision_free(E, alg, data, out):
    """environment assumption: the digests are collision-free on the inputs of this path
    (different inputs -> different outputs), so that no witness relies on a hash collision"""
    apps = E.path_state.setdefault('digest_apps', [])
    for alg2, data2, out2 in apps:
        if alg2 != alg or (data2 is data):
            continue
        if len(data2) == len(data):
            same_in = bytes_eq(data, data2)
            if same_in is True:
                continue
        else:
            same_in = False
        same_out = bytes_eq(out, out2)
        if same_in is not False and same_out is not True:
            # functional consistency between a concretely computed digest and an uninterpreted application
            # (or two applications): equal inputs -> equal outputs
            c2 = b_or(b_not(same_in), same_out)
            if c2 is False:
                raise Infeasible()
            if c2 is not True:
                E.solver.add(c2)
                E.pc.append(c2)
                E.model = None
        if same_out is False:
            continue
        c = b_or(same_in, b_not(same_out))
        if c is True:
            continue
        if c is False:
            raise Infeasible()
        E.solver.add(c)
        E.pc.append(c)
        E.model = None
    apps.append((alg, data, out))


CORES = {'Sha1Core': ('SHA1', 20), 'Md5Core': ('MD5', 16), 'Ripemd160Core': ('RMD160', 20), 'Ripemd128Core': ('RMD128', 16),
         'Ripemd256Core': ('RMD256', 32), 'Ripemd320Core': ('RMD320', 40)}
VARCORES = {('Sha256VarCore', 32): 'SHA256', ('Sha512VarCore', 64): 'SHA512', ('Blake2sVarCore', 32): 'BLAKE2s'}


def _alg_of_type(t):
    """RustCrypto hasher type (aliases expanded by rustc) -> (algorithm name, output bytes) or None"""
    import re
    for core, (name, n) in CORES.items():
        if re.search(r'\b' + core + r'\b', t):
            return name, n
    m = re.search(r'\b(\w+VarCore)\b', t)
    if m:
        bits = re.findall(r'\bB([01])\b', t)
        n = int(''.join(bits), 2) if bits else 0
        name = VARCORES.get((m.group(1), n))
        if name is None:
            name = f'{m.group(1)}_{n}'      # some other member of the family (e.g. SHA-224): its own function
        return name, n
    tl = type_last(t)
    if tl in HASHERS and HASHERS[tl][0]:
        return HASHERS[tl]
    return None


def hasher_type(E, ci, fr):
    """which RustCrypto hasher does the generic parameter stand for"""
    cands = []
    for src in [ci.self_ty or ''] + (list(fr.ci.targs) if fr is not None and fr.ci is not None else []):
        r = _alg_of_type(src)
        if r:
            cands.append(r)
    if len(cands) != 1:
        raise ModelGap(f'cannot determine digest type for {ci.raw}: {cands}')
    ALG_LEN.setdefault(cands[0][0], cands[0][1])
    return cands[0][0]


@model('Digest::finalize')
def _digest_finalize(E, ci, h):
    h = deref(h)
    return VecV(digest_bytes(E, h.alg, h.data), 'GenericArray')


@model('Digest::update', 'Update::update')
def _digest_update(E, ci, h, data):
    deref(h).data.extend(items_of(data))
    return UNIT


@model('<GenericArray as Deref>::deref', 'GenericArray::as_slice', 'GenericArray::iter')
def _ga_deref(E, ci, g):
    if ci.method == 'iter':
        s = as_slice(g)
        return ListIter([Ref(s.buf, s.a + i) for i in range(len(s))])
    return as_slice(g)


# ============================================================================ file-system stub
class FsNode:
    def __init__(self, kind):
        self.kind = kind          # 'dir' | 'file'
        self.children = []        # [(name items, FsNode)]   (dirs)
        self.content = []         # (files)


def fs_walk(E, path, create=None):
    """resolve a path (string-ish value) in E.fs; create = 'file'/'dir' to create missing nodes"""
    from .models_io import path_components
    if not hasattr(E, 'fs') or E.fs is None:
        E.fs = FsNode('dir')
    comps = [(k, s) for k, s in path_components(E, as_slice(path)) if k in ('Normal', 'ParentDir')]
    node = E.fs
    for idx, (k, seg) in enumerate(comps):
        if k == 'ParentDir':
            raise ModelGap('.. in fs stub path')
        if node.kind != 'dir':
            return None
        nxt = None
        for name, ch in node.children:
            if E.branch(bytes_eq(name, seg.items())):
                nxt = ch
                break
        if nxt is None:
            if create is None:
                return None
            last = idx == len(comps) - 1
            nxt = FsNode(create if last else 'dir')
            node.children.append((list(seg.items()), nxt))
        node = nxt
    return node


from .models import INTRINSICS, intrinsic   # noqa: E402


@intrinsic('fs_root')
def _fs_root(E, ci):
    E.fs = FsNode('dir')
    fs_walk(E, Slice(lit('/vfs'), 0, 4, 'Path'), 'dir')
    return VecV(lit('/vfs'), 'PathBuf')


@intrinsic('fs_add_file')
def _fs_add_file(E, ci, path, content):
    n = fs_walk(E, path, 'file')
    n.kind = 'file'
    n.content = list(items_of(content))
    return UNIT


@intrinsic('fs_add_dir')
def _fs_add_dir(E, ci, path):
    fs_walk(E, path, 'dir')
    return UNIT


class FileObj(Obj):
    def __init__(self, node):
        self.kind = 'File'
        self.node = node
        self.pos = 0

    def read(self, E, buf):
        n = min(len(buf), len(self.node.content) - self.pos)
        for i in range(n):
            buf.buf[buf.a + i] = self.node.content[self.pos + i]
        self.pos += n
        return ok(USZ(n))


def _not_found(E):
    from .models_io import io_error
    return err(io_error(E, 'NotFound', Slice(lit('No such file or directory'), 0, 25, 'str')))


@model('File::open')
def _file_open(E, ci, path):
    n = fs_walk(E, path)
    if n is None:
        return _not_found(E)
    if n.kind == 'dir':
        # opening a directory read-only succeeds on unix; reads then fail with EISDIR. Not needed by the crate.
        raise ModelGap('File::open on a directory')
    return ok(FileObj(n))


@model('File::metadata')
def _file_metadata(E, ci, f):
    return ok(Obj('Metadata', node=deref(f).node))


@model('Metadata::len')
def _metadata_len(E, ci, m):
    return I('u64', len(deref(m).node.content))


@model('Metadata::is_dir')
def _metadata_is_dir(E, ci, m):
    return deref(m).node.kind == 'dir'


@model('Metadata::is_file')
def _metadata_is_file(E, ci, m):
    return deref(m).node.kind == 'file'


@model('fs::metadata', 'Path::metadata')
def _fs_metadata(E, ci, path):
    n = fs_walk(E, path)
    return ok(Obj('Metadata', node=n)) if n is not None else _not_found(E)


@model('Path::is_dir', 'PathBuf::is_dir')
def _path_is_dir(E, ci, p):
    n = fs_walk(E, p)
    return n is not None and n.kind == 'dir'


@model('Path::is_file', 'PathBuf::is_file')
def _path_is_file(E, ci, p):
    n = fs_walk(E, p)
    return n is not None and n.kind == 'file'


@model('Path::exists', 'PathBuf::exists')
def _path_exists(E, ci, p):
    return fs_walk(E, p) is not None


@model('fs::read_to_string')
def _fs_read_to_string(E, ci, path):
    from .models import utf8_valid_prefix
    from .models_io import io_error
    n = fs_walk(E, path)
    if n is None:
        return _not_found(E)
    if n.kind != 'file':
        return err(io_error(E, 'Other', Slice(lit('Is a directory'), 0, 14, 'str')))
    good, _ = utf8_valid_prefix(E, n.content)
    if not good:
        return err(io_error(E, 'InvalidData', Slice(lit('stream did not contain valid UTF-8'), 0, 34, 'str')))
    return ok(VecV(list(n.content), 'String'))


@model('fs::read')
def _fs_read(E, ci, path):
    n = fs_walk(E, path)
    if n is None:
        return _not_found(E)
    return ok(VecV(list(n.content), 'Vec'))


class ReadDirObj(Iter):
    """directory listing in an arbitrary order (the engine forks over the next entry each time)"""

    def __init__(self, base, node):
        self.kind = 'ReadDir'
        self.base = base
        self.left = list(node.children)

    def next(self, E):
        if not self.left:
            return none()
        k = 0
        while k < len(self.left) - 1:
            if E.branch(E.fresh_bool(f'readdir.next=={k}')):
                break
            k += 1
        name, node = self.left.pop(k)
        return some(ok(Obj('DirEntry', base=self.base, name=name, node=node)))


@model('fs::read_dir', 'Path::read_dir')
def _read_dir(E, ci, path):
    n = fs_walk(E, path)
    if n is None:
        return _not_found(E)
    if n.kind != 'dir':
        from .models_io import io_error
        return err(io_error(E, 'Other', Slice(lit('Not a directory'), 0, 15, 'str')))
    return ok(ReadDirObj(list(as_slice(path).items()), n))


@model('DirEntry::path')
def _direntry_path(E, ci, d):
    from .models_io import pathbuf_push
    d = deref(d)
    pb = VecV(list(d.base), 'PathBuf')
    pathbuf_push(E, pb, Slice(d.name, 0, len(d.name), 'Path'))
    return pb


@model('DirEntry::file_name')
def _direntry_file_name(E, ci, d):
    return VecV(list(deref(d).name), 'OsString')


@model('DirEntry::metadata', 'DirEntry::file_type')
def _direntry_metadata(E, ci, d):
    return ok(Obj('Metadata', node=deref(d).node))


@model('BufRead::read_until')
def _bufread_read_until(E, ci, r, delim, v):
    st, e, out = read_until(E, r, delim)
    deref(v).buf.extend(out)
    if st == 'err':
        return err(e)
    return ok(USZ(len(out)))


@model('BufRead::read_line')
def _bufread_read_line(E, ci, r, v):
    from .models import utf8_valid_prefix
    from .models_io import io_error
    st, e, out = read_until(E, r, U8(10))
    if st == 'err':
        return err(e)
    good, _ = utf8_valid_prefix(E, out)
    if not good:
        return err(io_error(E, 'InvalidData', Slice(lit('stream did not contain valid UTF-8'), 0, 34, 'str')))
    deref(v).buf.extend(out)
    return ok(USZ(len(out)))


@model('Read::read_exact')
def _read_exact(E, ci, r, buf):
    from .models_io import io_error
    b = as_slice(buf)
    pos = 0
    while pos < len(b):
        rr = reader_read(E, r, b.sub(pos, len(b)))
        if rr.variant == 1:
            if is_interrupted(E, rr.fields[0]):
                continue
            return rr
        n = E.concretize(rr.fields[0])
        if n == 0:
            return err(io_error(E, 'UnexpectedEof', Slice(lit('failed to fill whole buffer'), 0, 27, 'str')))
        pos += n
    return ok(UNIT)


@model('Read::bytes')
def _read_bytes(E, ci, r):
    if isinstance(deref(r), Slice):
        r = Ref([SliceReader(deref(r))], 0)
    elif not isinstance(r, Ref):
        r = Ref([r], 0)

    class BytesIter(Iter):
        def next(self_, E_):
            while True:
                scratch = [U8(0)]
                rr = reader_read(E_, r, Slice(scratch, 0, 1, 'slice'))
                if rr.variant == 1:
                    if is_interrupted(E_, rr.fields[0]):
                        continue
                    return some(rr)
                if E_.concretize(rr.fields[0]) == 0:
                    return none()
                return some(ok(scratch[0]))
    return BytesIter()
