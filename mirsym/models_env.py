"""Environment stubs: readers / writers, in-memory file system, digest recorder, serde glue."""
import z3

from .values import *
from .program import type_last, generic_args, strip_generics
from .models import MODELS, PRIORITY, model, as_slice, items_of, pystr, lit, bytes_eq
from .models_iter import Iter, ListIter, iter_of, drain_iter
