"""Environment stubs: readers / writers, in-memory file system, digest recorder, serde glue."""
import z3

from .values import *
from .program import type_last, generic_args, strip_generics
from .models import MODELS, PRIORITY, model, as_slice, items_of, pystr, lit, bytes_eq
from .models_iter import Iter, ListIter, iter_of, drain_iter


# ============================================================================ glob crate (0.3.1) model
# A Python transcription of glob::Pattern::{new, matches} (default MatchOptions).  It is a stub of a
# dependency, not of pkgsrc-rs code; every path witness is re-executed natively against the real crate.
def _glob_err(pos, msg):
    return err(Agg('glob::PatternError', 0, [USZ(pos), Slice(lit(msg), 0, len(msg), 'str')]))


def _ceq(E, c, ch):
    return E.branch(i_eq(c, I('char', ord(ch))))


@model('glob::Pattern::new')
def _glob_new(E, ci, s):
    from .models_core import char_positions
    sl = as_slice(s)
    chars = [c for _, c, _ in char_positions(E, sl)]
    n = len(chars)
    tokens = []
    i = 0
    while i < n:
        c = chars[i]
        if _ceq(E, c, '?'):
            tokens.append(('any',))
            i += 1
        elif _ceq(E, c, '*'):
            old = i
            while i < n and _ceq(E, chars[i], '*'):
                i += 1
            count = i - old
            if count > 2:
                return _glob_err(old + 2, 'wildcards are either regular `*` or recursive `**`')
            if count == 2:
                if i == 2 or _ceq(E, chars[i - count - 1], '/'):
                    if i < n and _ceq(E, chars[i], '/'):
                        i += 1
                    elif i == n:
                        pass
                    else:
                        return _glob_err(i, 'recursive wildcards must form a single path component')
                else:
                    return _glob_err(old - 1, 'recursive wildcards must form a single path component')
                if not (len(tokens) > 1 and tokens[-1] == ('recseq',)):
                    tokens.append(('recseq',))
            else:
                tokens.append(('seq',))
        elif _ceq(E, c, '['):
            done = False
            if i + 4 <= n and _ceq(E, chars[i + 1], '!'):
                j = None
                for k, x in enumerate(chars[i + 3:]):
                    if _ceq(E, x, ']'):
                        j = k
                        break
                if j is not None:
                    tokens.append(('except', _glob_specs(E, chars[i + 2:i + 3 + j])))
                    i += j + 4
                    done = True
            elif i + 3 <= n and not _ceq(E, chars[i + 1], '!'):
                j = None
                for k, x in enumerate(chars[i + 2:]):
                    if _ceq(E, x, ']'):
                        j = k
                        break
                if j is not None:
                    tokens.append(('within', _glob_specs(E, chars[i + 1:i + 2 + j])))
                    i += j + 3
                    done = True
            if not done:
                return _glob_err(i, 'invalid range pattern')
        else:
            tokens.append(('char', c))
            i += 1
    return ok(Obj('glob::Pattern', tokens=tokens, original=VecV(list(sl.items()), 'String')))


def _glob_specs(E, s):
    cs = []
    i = 0
    while i < len(s):
        if i + 3 <= len(s) and _ceq(E, s[i + 1], '-'):
            cs.append(('range', s[i], s[i + 2]))
            i += 3
        else:
            cs.append(('single', s[i]))
            i += 1
    return cs


def _in_specs(E, specs, c):
    for sp in specs:
        if sp[0] == 'single':
            if E.branch(i_eq(c, sp[1])):
                return True
        else:
            if E.branch(b_and(i_cmp('Ge', c, sp[1]), i_cmp('Le', c, sp[2]))):
                return True
    return False


def _glob_matches_from(E, tokens, follows_sep, chars, pos, i):
    """-> 'match' | 'sub' | 'entire'"""
    for ti in range(i, len(tokens)):
        tok = tokens[ti]
        if tok[0] in ('seq', 'recseq'):
            r = _glob_matches_from(E, tokens, follows_sep, chars, pos, ti + 1)
            if r != 'sub':
                return r
            while pos < len(chars):
                c = chars[pos]
                pos += 1
                follows_sep = _ceq(E, c, '/')
                if tok[0] == 'recseq' and not follows_sep:
                    continue
                r = _glob_matches_from(E, tokens, follows_sep, chars, pos, ti + 1)
                if r != 'sub':
                    return r
        else:
            if pos >= len(chars):
                return 'entire'
            c = chars[pos]
            pos += 1
            if tok[0] == 'any':
                okk = True
            elif tok[0] == 'within':
                okk = _in_specs(E, tok[1], c)
            elif tok[0] == 'except':
                okk = not _in_specs(E, tok[1], c)
            else:
                okk = E.branch(i_eq(c, tok[1]))
            if not okk:
                return 'sub'
            follows_sep = False if c.conc() and c.v != 47 else _ceq(E, c, '/')
    return 'match' if pos >= len(chars) else 'sub'


@model('glob::Pattern::matches')
def _glob_matches(E, ci, p, s):
    from .models_core import char_positions
    p = deref(p)
    chars = [c for _, c, _ in char_positions(E, as_slice(s))]
    return _glob_matches_from(E, p.tokens, True, chars, 0, 0) == 'match'


@model('glob::Pattern::as_str')
def _glob_as_str(E, ci, p):
    return deref(p).original.view()
