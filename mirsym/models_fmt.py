"""format!/write! machinery: Arguments (compact template encoding of rustc >= 1.9x), Formatter, Display."""
import z3

from .values import *
from .program import type_last
from .models import MODELS, model, as_slice, items_of, pystr, lit, encode_char, char_is_whitespace


class FmtError(Exception):
    pass


class Formatter(Obj):
    def __init__(self, out, flags=0, width=None, precision=None, writer=None):
        self.kind = 'Formatter'
        self.out = out            # python list of u8 scalars (sink) or None when writer given
        self.flags = flags
        self.width = width
        self.precision = precision
        self.writer = writer      # a Rust value implementing fmt::Write / io::Write (crate type)

    def write(self, E, items):
        if self.writer is not None:
            raise ModelGap('Formatter over a custom writer')
        self.out.extend(items)


def parse_template(tpl):
    """compact template bytes -> list of ('lit', bytes) | ('arg', idx, flags, width, precision)"""
    out = []
    i = 0
    arg_index = 0
    while True:
        n = tpl[i]
        i += 1
        if n == 0:
            return out
        if n < 0x80:
            out.append(('lit', bytes(tpl[i:i + n])))
            i += n
        elif n == 0x80:
            ln = tpl[i] | (tpl[i + 1] << 8)
            i += 2
            out.append(('lit', bytes(tpl[i:i + ln])))
            i += ln
        elif n == 0xC0:
            out.append(('arg', arg_index, None, None, None, 0))
            arg_index += 1
        else:
            flags = width = prec = None
            if n & 1:
                flags = int.from_bytes(bytes(tpl[i:i + 4]), 'little')
                i += 4
            if n & 2:
                width = tpl[i] | (tpl[i + 1] << 8)
                i += 2
            if n & 4:
                prec = tpl[i] | (tpl[i + 1] << 8)
                i += 2
            if n & 8:
                arg_index = tpl[i] | (tpl[i + 1] << 8)
                i += 2
            out.append(('arg', arg_index, flags, width, prec, n & 0x30))
            arg_index += 1


@model('Arguments::new')
def _arguments_new(E, ci, tpl, args):
    t = pystr(tpl)
    a = list(items_of(args))
    return Obj('Arguments', parts=parse_template(t), args=a)


@model('Arguments::from_str', 'Arguments::new_const', 'Arguments::from_str_nonconst')
def _arguments_from_str(E, ci, s):
    v = deref(s)
    if isinstance(v, Agg):      # &[&str; 1]
        v = deref(v.fields[0]) if v.fields else Slice([], 0, 0, 'str')
    return Obj('Arguments', parts=[('litv', list(as_slice(v).items()))], args=[])


@model('Arguments::as_str')
def _arguments_as_str(E, ci, a):
    a = deref(a)
    if not a.args and len(a.parts) <= 1:
        items = []
        for p in a.parts:
            items += lit(p[1]) if p[0] == 'lit' else p[1]
        return some(Slice(items, 0, len(items), 'str'))
    return none()


def _mkarg(trait):
    def f(E, ci, x):
        return Obj('Argument', trait=trait, value=x)
    return f


for _n, _t in (('new_display', 'Display'), ('new_debug', 'Debug'), ('new_lower_hex', 'LowerHex'),
               ('new_upper_hex', 'UpperHex'), ('new_octal', 'Octal'), ('new_binary', 'Binary'),
               ('new_pointer', 'Pointer'), ('new_lower_exp', 'LowerExp')):
    MODELS['Argument::' + _n] = _mkarg(_t)


def int_to_decimal(E, x):
    """decimal digits of integer scalar x as u8 scalars (forks over digit count when symbolic)"""
    if x.conc():
        return lit(str(x.v))
    w = WIDTH[x.t]
    sg = signed(x.t)
    v = x.v
    out = []
    neg = False
    if sg:
        if E.branch(v < 0):
            neg = True
    # magnitude in w+1 bits unsigned
    W = w + 1
    mag = z3.ZeroExt(1, v) if not sg else z3.SignExt(1, v)
    if neg:
        mag = -mag
    # number of digits: fork
    nd = 1
    maxd = len(str(1 << w))
    while nd < maxd and E.branch(z3.UGE(mag, z3.BitVecVal(10 ** nd, W))):
        nd += 1
    # digits as fresh variables tied by a linear constraint (avoids udiv/urem chains)
    WW = W + 4 * nd + 4
    ds = [E.fresh('dig', 8) for _ in range(nd)]
    acc = z3.BitVecVal(0, WW)
    for d in ds:
        E.solver.add(z3.ULE(d, 9))
        E.pc.append(z3.ULE(d, 9))
        acc = acc * 10 + z3.ZeroExt(WW - 8, d)
    c = acc == z3.ZeroExt(WW - W, mag)
    E.solver.add(c)
    E.pc.append(c)
    if nd > 1:
        c2 = ds[0] != 0
        E.solver.add(c2)
        E.pc.append(c2)
    E.model = None
    out = ([U8(45)] if neg else []) + [from_z('u8', d + 48) for d in ds]
    return out


def int_to_hex(E, x, upper=False):
    w = WIDTH[x.t]
    if x.conc():
        v = x.v & ((1 << w) - 1)
        return lit(('%X' if upper else '%x') % v)
    nd = w // 4
    n = nd
    # number of significant nibbles: fork
    n = 1
    while n < nd and E.branch(z3.UGE(x.v, z3.BitVecVal(1 << (4 * n), w))):
        n += 1
    out = []
    base = 55 if upper else 87
    for k in range(n - 1, -1, -1):
        nib = z3.Extract(7, 0, z3.ZeroExt(8, z3.LShR(x.v, 4 * k)) if w < 8 else z3.LShR(x.v, 4 * k)) & 0xF \
            if w >= 8 else None
        nib = z3.Extract(3, 0, z3.LShR(x.v, 4 * k))
        nib8 = z3.ZeroExt(4, nib)
        out.append(from_z('u8', z3.If(z3.ULT(nib8, 10), nib8 + 48, nib8 + base)))
    return out


def pad(items, nchars, width, flags, numeric=False, default_right=False):
    """apply width / fill / alignment (flags layout: fill char in low 21 bits, align bits 29-30, zero pad bit 24)"""
    if width is None or nchars >= width:
        return items
    fill = 32
    align = 'right' if default_right else 'left'
    zero = False
    if flags is not None:
        fill = flags & 0x1FFFFF
        zero = bool(flags & (1 << 24))
        al = (flags >> 29) & 3
        if al == 0:
            align = 'left'
        elif al == 1:
            align = 'right'
        elif al == 2:
            align = 'center'
    padn = width - nchars
    if zero and numeric:
        # sign-aware zero padding
        if items and items[0].conc() and items[0].v in (43, 45):
            return [items[0]] + lit('0' * padn) + items[1:]
        return lit('0' * padn) + items
    f = lit(chr(fill).encode())
    if align == 'left':
        return items + f * padn
    if align == 'right':
        return f * padn + items
    l = padn // 2
    return f * l + items + f * (padn - l)


def count_chars(E, items):
    n = 0
    for b in items:
        if b.conc():
            if (b.v & 0xC0) != 0x80:
                n += 1
        else:
            if E.branch((b.v & 0xC0) != 0x80):
                n += 1
    return n


def fmt_value(E, f, trait, x):
    """format value x with trait into formatter f"""
    while isinstance(x, Ref) and isinstance(x.get(), Ref):
        x = x.get()
    v = deref(x)
    if isinstance(v, Obj) and v.kind == 'Arguments':
        f.write(E, render_arguments(E, v))
        return
    if isinstance(v, Obj) and v.kind == 'PathDisplay':
        from .models_core import lossy_items
        f.write(E, lossy_items(E, v.s.items()))
        return
    if trait in ('Display', 'Debug') and isinstance(v, (Slice, VecV)) and trait == 'Display':
        s = as_slice(v)
        items = list(s.items())
        if f.precision is not None:
            raise ModelGap('precision on str')
        if f.width is not None:
            items = pad(items, count_chars(E, items), f.width, f.flags)
        f.write(E, items)
        return
    if isinstance(v, I):
        if v.t == 'char':
            if trait != 'Display':
                raise ModelGap('char ' + trait)
            items = encode_char(E, v)
            f.write(E, pad(items, 1, f.width, f.flags))
            return
        if trait in ('Display', 'Debug'):
            items = int_to_decimal(E, v)
            if f.flags is not None and f.flags & (1 << 21) and not (items[0].conc() and items[0].v == 45):
                items = [U8(43)] + items
        elif trait in ('LowerHex', 'UpperHex'):
            nd = WIDTH[v.t] // 4
            if not v.conc() and f.width is not None and f.width >= nd and f.flags is not None and f.flags & (1 << 24):
                # zero-padded to at least the full width: all nibbles, no fork on the magnitude
                base = 55 if trait == 'UpperHex' else 87
                items = []
                for k in range(nd - 1, -1, -1):
                    nib8 = z3.ZeroExt(4, z3.Extract(3, 0, z3.LShR(v.v, 4 * k)))
                    items.append(from_z('u8', z3.If(z3.ULT(nib8, 10), nib8 + 48, nib8 + base)))
            else:
                items = int_to_hex(E, v, trait == 'UpperHex')
        else:
            raise ModelGap('int ' + trait)
        f.write(E, pad(items, len(items), f.width, f.flags, numeric=True, default_right=True))
        return
    if isinstance(v, bool) or z3.is_expr(v):
        if E.branch(v):
            f.write(E, pad(lit('true'), 4, f.width, f.flags))
        else:
            f.write(E, pad(lit('false'), 5, f.width, f.flags))
        return
    if isinstance(v, Agg) and v.ty == 'Box':
        return fmt_value(E, f, trait, v.fields[0])
    if isinstance(v, Agg) and v.ty == 'Cow':
        return fmt_value(E, f, trait, v.fields[0])
    if isinstance(v, Agg) or isinstance(v, Obj):
        ty = v.ty if isinstance(v, Agg) else v.kind
        cands = E.prog.index.get((ty, trait, 'fmt'))
        if cands:
            r = E.call_fn(cands[0], [x if isinstance(x, Ref) else Ref([v], 0), f], None)
            if r.variant != 0:
                raise FmtError()
            return
        m = MODELS.get(f'<{ty} as {trait}>::fmt')
        if m:
            r = m(E, None, x if isinstance(x, Ref) else Ref([v], 0), f)
            if r.variant != 0:
                raise FmtError()
            return
    if trait == 'Debug':
        f.write(E, lit('<debug>'))       # Debug output is never asserted on
        return
    raise ModelGap(f'{trait} for {v!r}')


def render_into(E, f, a):
    for p in a.parts:
        if p[0] == 'lit':
            f.write(E, lit(p[1]))
        elif p[0] == 'litv':
            f.write(E, p[1])
        else:
            _, idx, flags, width, prec, indirect = p
            if indirect:
                raise ModelGap('indirect width/precision')
            arg = deref(a.args[idx])
            sub = Formatter(f.out, flags, width, prec, f.writer)
            fmt_value(E, sub, arg.trait, arg.value)


def render_arguments(E, a):
    out = []
    render_into(E, Formatter(out), a)
    return out


def display_to_items(E, x):
    out = []
    fmt_value(E, Formatter(out), 'Display', x)
    return out


@model('fmt::format', 'fmt::format::format_inner')
def _format(E, ci, a):
    return VecV(render_arguments(E, a), 'String')


@model('Formatter::write_fmt', '<Formatter as Write>::write_fmt')
def _write_fmt(E, ci, f, a):
    try:
        render_into(E, deref(f), a)
    except FmtError:
        return err(UNIT)
    return ok(UNIT)


@model('Formatter::write_str', '<Formatter as Write>::write_str')
def _write_str(E, ci, f, s):
    deref(f).write(E, list(items_of(s)))
    return ok(UNIT)


@model('Formatter::write_char', '<Formatter as Write>::write_char')
def _write_char(E, ci, f, c):
    deref(f).write(E, encode_char(E, c))
    return ok(UNIT)


@model('Formatter::pad')
def _fmt_pad(E, ci, f, s):
    f = deref(f)
    items = list(items_of(s))
    f.write(E, pad(items, count_chars(E, items), f.width, f.flags) if f.width is not None else items)
    return ok(UNIT)


@model('Display::fmt', 'Debug::fmt', 'LowerHex::fmt', 'UpperHex::fmt')
def _trait_fmt(E, ci, x, f):
    try:
        fmt_value(E, deref(f), ci.trait_last, x)
    except FmtError:
        return err(UNIT)
    return ok(UNIT)


@model('<String as Write>::write_str', '<String as fmt::Write>::write_str')
def _string_write_str(E, ci, s, t):
    deref(s).buf.extend(items_of(t))
    return ok(UNIT)


@model('<String as Write>::write_fmt', 'Write::write_fmt', '<Vec as Write>::write_fmt')
def _generic_write_fmt(E, ci, w, a):
    v = deref(w)
    if isinstance(v, VecV):
        v.buf.extend(render_arguments(E, a))
        return ok(UNIT)
    if isinstance(v, Formatter):
        return _write_fmt(E, ci, w, a)
    from .models_io import io_write_all
    return io_write_all(E, w, render_arguments(E, a))


@model('Formatter::debug_struct', 'Formatter::debug_tuple', 'Formatter::debug_list', 'Formatter::debug_map',
       'Formatter::debug_struct_field1_finish', 'Formatter::debug_struct_field2_finish',
       'Formatter::debug_struct_field3_finish', 'Formatter::debug_struct_field4_finish',
       'Formatter::debug_struct_field5_finish', 'Formatter::debug_struct_fields_finish',
       'Formatter::debug_tuple_field1_finish', 'Formatter::debug_tuple_field2_finish',
       'Formatter::debug_tuple_field3_finish', 'Formatter::debug_tuple_fields_finish')
def _debug_builders(E, ci, f, *a):
    deref(f).write(E, lit('<debug>'))
    return ok(UNIT)


@model('Path::display', 'PathBuf::display', 'OsStr::display')
def _path_display(E, ci, p):
    return Obj('PathDisplay', s=as_slice(p))


@model('__private::AsDisplay::as_display', 'AsDisplay::as_display')
def _as_display(E, ci, x):
    v = deref(x)
    if isinstance(v, (Slice, VecV)) and as_slice(v).kind == 'Path':
        return Obj('PathDisplay', s=as_slice(v))
    if isinstance(v, Ref):
        return v
    return x


@model('AsDynError::as_dyn_error')
def _as_dyn_error(E, ci, x):
    return x
