"""Pipeline: scratch copy of /repo + mounted harness -> MIR dump -> symbolic exploration (16 workers)
-> native replay of witnesses / counterexamples -> evidence + exit code."""
import hashlib
import json
import multiprocessing as mp
import os
import random
import shutil
import subprocess
import sys
import tempfile
import time
import traceback

VERIF = os.path.dirname(os.path.dirname(os.path.abspath(__file__)))
REPO = os.environ.get('VERIF_REPO', '/repo')
HARNESS_DIR = os.path.join(VERIF, 'harness')
MOUNTS = {  # crate module -> accessor shim mounted as `<module>::verif_in`
    'dewey': 'in_dewey.rs', 'plist': 'in_plist.rs', 'summary': 'in_summary.rs', 'distinfo': 'in_distinfo.rs',
    'pattern': 'in_pattern.rs', 'digest': 'in_digest.rs', 'pkgdb': 'in_pkgdb.rs', 'scanindex': 'in_scanindex.rs',
    'metadata': 'in_metadata.rs', 'pkgname': 'in_pkgname.rs', 'pkgpath': 'in_pkgpath.rs',
}
ENV = dict(os.environ, CARGO_NET_OFFLINE='true')


def log(*a):
    print(*a, file=sys.stderr, flush=True)


# ------------------------------------------------------------------------------ scratch / build
def prepare_scratch(tag='run'):
    base = tempfile.mkdtemp(prefix=f'mirsym-{tag}-', dir=os.environ.get('VERIF_SCRATCH', '/var/tmp'))
    repo = os.path.join(base, 'repo')
    subprocess.check_call(['rsync', '-a', '--exclude', 'target', '--exclude', '.git', REPO + '/', repo + '/'])
    with open(os.path.join(repo, 'src/lib.rs'), 'a') as f:
        f.write(f'\n#[path = "{HARNESS_DIR}/mod.rs"]\n#[allow(missing_docs)]\npub mod verif_harness;\n')
    for mod, shim in MOUNTS.items():
        p = os.path.join(HARNESS_DIR, shim)
        src = os.path.join(repo, 'src', mod + '.rs')
        if os.path.exists(p) and os.path.exists(src):
            with open(src, 'a') as f:
                f.write(f'\n#[path = "{p}"]\n#[allow(missing_docs, dead_code, unused_imports)]\npub mod verif_in;\n')
    os.makedirs(os.path.join(repo, 'src/bin'), exist_ok=True)
    with open(os.path.join(repo, 'src/bin/verif_replay.rs'), 'w') as f:
        f.write('fn main() { pkgsrc::verif_harness::replay_main(); }\n')
    return base, repo


def dump_mir(base, repo):
    t = time.time()
    out = os.path.join(base, 'lib.mir')
    cmd = ['cargo', '+nightly', 'rustc', '--offline', '--lib', '--target-dir', os.path.join(base, 'target-mir'), '--',
           '-Zunpretty=mir', '-Ztrim-diagnostic-paths=no', '-C', 'debug-assertions=off', '-C', 'overflow-checks=on',
           '-Awarnings']
    with open(out, 'w') as f:
        r = subprocess.run(cmd, cwd=repo, stdout=f, stderr=subprocess.PIPE, env=ENV, text=True)
    if r.returncode != 0:
        log(r.stderr[-4000:])
        raise RuntimeError('MIR dump failed')
    return out, time.time() - t


def build_native(base, repo):
    t = time.time()
    cmd = ['cargo', 'build', '--offline', '--bin', 'verif_replay', '--target-dir', os.path.join(base, 'target-native')]
    env = dict(ENV, RUSTFLAGS='-Awarnings')
    r = subprocess.run(cmd, cwd=repo, stdout=subprocess.PIPE, stderr=subprocess.PIPE, env=env, text=True)
    if r.returncode != 0:
        log(r.stderr[-4000:])
        raise RuntimeError('native build failed')
    return os.path.join(base, 'target-native/debug/verif_replay'), time.time() - t


# ------------------------------------------------------------------------------ workers
_W = {}


def _worker_init(mir_path, srcroot, kf, seed, step_cap, opts):
    from .program import Program
    from .engine import Engine
    prog = Program(open(mir_path).read(), srcroot, extra_src=[HARNESS_DIR])
    _W['prog'] = prog
    _W['mk'] = lambda: Engine(prog, kf_listed=kf, seed=seed, step_cap=step_cap)
    _W['E'] = _W['mk']()
    for k, v in (opts or {}).items():
        setattr(_W['E'], k, v)


def find_harness(prog, name):
    for f in prog.fns:
        if f.name == 'verif_harness::' + name:
            return f
    raise KeyError('harness not found in MIR: ' + name)


def _explore(args):
    """explore the subtree below `prefix` up to `budget` paths; return results + leftover prefixes"""
    hname, prefix, budget = args
    from .values import ModelGap
    E = _W['E']
    entry = find_harness(_W['prog'], hname)
    stack = [prefix]
    out = []
    n = 0
    q0, t0, b0 = E.nqueries, E.qtime, E.nbranches
    while stack and n < budget:
        p = stack.pop()
        try:
            r = E.run_path(entry, p)
        except ModelGap as g:
            out.append({'outcome': 'gap', 'msg': str(g), 'decisions': p, 'inputs': [], 'obs': [], 'steps': 0,
                        'checks': [], 'covers': [], 'kf': [], 'violations': []})
            n += 1
            stack.extend(E.pending)
            continue
        except Exception:
            out.append({'outcome': 'gap', 'msg': 'engine exception: ' + traceback.format_exc()[-1500:],
                        'decisions': p, 'inputs': [], 'obs': [], 'steps': 0, 'checks': [], 'covers': [], 'kf': [],
                        'violations': []})
            n += 1
            stack.extend(getattr(E, 'pending', []))
            continue
        stack.extend(E.pending)
        n += 1
        out.append({'outcome': r.outcome, 'msg': r.msg, 'decisions': r.decisions, 'inputs': r.inputs, 'obs': r.obs,
                    'steps': r.steps, 'checks': r.checks, 'covers': r.covers, 'kf': r.kf,
                    'violations': E.violations})
    stats = {'queries': E.nqueries - q0, 'qtime': E.qtime - t0, 'branches': E.nbranches - b0,
             'fns': sorted(E.functions_encoded), 'models': sorted(E.models_used)}
    return hname, out, stack, stats


class HarnessResult:
    def __init__(self, name):
        self.name = name
        self.paths = 0
        self.ok = 0
        self.panics = []
        self.gaps = []
        self.violations = []
        self.witnesses = []     # (inputs, obs, checks, outcome)
        self.covers = set()
        self.checks = 0
        self.kf = {}
        self.transitions = 0
        self.steps = 0
        self.queries = 0
        self.qtime = 0.0
        self.fns = set()
        self.models = set()
        self.truncated = False


def explore_harnesses(pool, names, max_paths, seed, time_budget=None):
    """breadth: all harnesses share the pool"""
    res = {n: HarnessResult(n) for n in names}
    pending = []
    for n in names:
        pending.append(pool.apply_async(_explore, ((n, [], 8),)))
    t0 = time.time()
    rnd = random.Random(seed)
    while pending:
        nxt = []
        progressed = False
        for a in pending:
            if not a.ready():
                nxt.append(a)
                continue
            progressed = True
            hname, out, left, stats = a.get()
            hr = res[hname]
            hr.queries += stats['queries']
            hr.qtime += stats['qtime']
            hr.transitions += stats['branches']
            hr.fns.update(stats['fns'])
            hr.models.update(stats['models'])
            for r in out:
                hr.paths += 1
                hr.steps += r['steps']
                for v in r['violations']:
                    hr.violations.append({'check': v[0], 'inputs': v[1], 'decisions': v[2]})
                if r['outcome'] == 'gap':
                    hr.gaps.append(r['msg'])
                    continue
                if r['outcome'] == 'infeasible':
                    continue
                hr.checks += len(r['checks'])
                hr.covers.update(r['covers'])
                for role, inp in r['kf']:
                    hr.kf.setdefault(role, inp)
                if r['outcome'] == 'panic':
                    hr.panics.append({'msg': r['msg'], 'inputs': r['inputs'], 'decisions': r['decisions']})
                else:
                    hr.ok += 1
                hr.witnesses.append((r['inputs'], r['obs'], r['checks'], r['outcome'], r['msg']))
            over = hr.paths >= max_paths or (time_budget and time.time() - t0 > time_budget) \
                or len(hr.violations) + len(hr.panics) > 200 or len(hr.gaps) > 50
            if over:
                if left:
                    hr.truncated = True
                continue
            rnd.shuffle(left)
            # split leftover prefixes into jobs
            per = max(1, min(16, len(left) // 32 + 1))
            for i in range(0, len(left), per):
                for p in left[i:i + per]:
                    nxt.append(pool.apply_async(_explore, ((hname, p, 64),)))
        pending = nxt
        if not progressed:
            time.sleep(0.01)
    return res


# ------------------------------------------------------------------------------ native replay
def write_script(path, cases):
    with open(path, 'w') as f:
        for cid, harness, inputs in cases:
            f.write(f'CASE {cid} {harness}\n')
            for k, t, v in inputs:
                f.write(f'{k} {t} {v}\n')
            f.write('END\n')


def parse_transcript(text):
    out = {}
    cur = None
    for l in text.split('\n'):
        if l.startswith('CASE '):
            cur = {'obs': [], 'checks': [], 'covers': [], 'end': None, 'kf': []}
            out[l.split(' ')[1]] = cur
        elif cur is None:
            continue
        elif l.startswith('OBS '):
            _, t, v = l.split(' ', 2)
            cur['obs'].append((t, v))
        elif l.startswith('CHECK '):
            _, t, v = l.split(' ', 2)
            cur['checks'].append((t, v == '1'))
        elif l.startswith('KF '):
            _, t, v = l.split(' ', 2)
            cur['kf'].append((t, v == '1'))
        elif l.startswith('PANIC'):
            cur['end'] = l
        elif l in ('DONE', 'NOHARNESS'):
            cur['end'] = l
        elif l == 'ASSUME-FAILED':
            cur['end'] = 'ASSUME-FAILED'
    return out


def native_run(binary, base, cases):
    sp = os.path.join(base, 'script.txt')
    op = os.path.join(base, 'transcript.txt')
    write_script(sp, cases)
    r = subprocess.run([binary, sp, op], stdout=subprocess.PIPE, stderr=subprocess.PIPE, text=True)
    if r.returncode != 0:
        raise RuntimeError('native replay crashed: ' + r.stderr[-2000:])
    return parse_transcript(open(op).read())
