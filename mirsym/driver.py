"""Pipeline: scratch copy of /repo + mounted harness -> MIR dump -> symbolic exploration (16 workers)
-> native replay of witnesses / counterexamples -> evidence + exit code."""
import hashlib
import json
import multiprocessing as mp
import os
import random
import shutil
import subprocess
import sys
import tempfile
import time
import traceback

VERIF = os.path.dirname(os.path.dirname(os.path.abspath(__file__)))
REPO = os.environ.get('VERIF_REPO', '/repo')
HARNESS_DIR = os.path.join(VERIF, 'harness')
MOUNTS = {  # crate module -> accessor shim mounted as `<module>::verif_in`
    'dewey': 'in_dewey.rs', 'plist': 'in_plist.rs', 'summary': 'in_summary.rs', 'distinfo': 'in_distinfo.rs',
    'pattern': 'in_pattern.rs', 'digest': 'in_digest.rs', 'pkgdb': 'in_pkgdb.rs', 'scanindex': 'in_scanindex.rs',
    'metadata': 'in_metadata.rs', 'pkgname': 'in_pkgname.rs', 'pkgpath': 'in_pkgpath.rs',
}
ENV = dict(os.environ, CARGO_NET_OFFLINE='true')


def log(*a):
    print(*a, file=sys.stderr, flush=True)


# ------------------------------------------------------------------------------ scratch / build
def prepare_scratch(tag='run', base=None):
    if base is None:
        base = tempfile.mkdtemp(prefix=f'mirsym-{tag}-', dir=os.environ.get('VERIF_SCRATCH', '/var/tmp'))
    else:
        os.makedirs(base)
    repo = os.path.join(base, 'repo')
    subprocess.check_call(['rsync', '-a', '--exclude', 'target', '--exclude', '.git', REPO + '/', repo + '/'])
    hdir = os.path.join(base, 'harness')
    shutil.copytree(HARNESS_DIR, hdir)
    with open(os.path.join(repo, 'src/lib.rs'), 'a') as f:
        f.write(f'\n#[path = "{hdir}/mod.rs"]\n#[allow(missing_docs)]\npub mod verif_harness;\n')
    for mod, shim in MOUNTS.items():
        p = os.path.join(hdir, shim)
        src = os.path.join(repo, 'src', mod + '.rs')
        if os.path.exists(p) and os.path.exists(src):
            with open(src, 'a') as f:
                f.write(f'\n#[path = "{p}"]\n#[allow(missing_docs, dead_code, unused_imports)]\npub mod verif_in;\n')
    os.makedirs(os.path.join(repo, 'src/bin'), exist_ok=True)
    with open(os.path.join(repo, 'src/bin/verif_replay.rs'), 'w') as f:
        f.write('fn main() { pkgsrc::verif_harness::replay_main(); }\n')
    return base, repo


def dump_mir(base, repo):
    t = time.time()
    out = os.path.join(base, 'lib.mir')
    cmd = ['cargo', '+nightly', 'rustc', '--offline', '--lib', '--target-dir', os.path.join(base, 'target-mir'), '--',
           '-Zunpretty=mir', '-Ztrim-diagnostic-paths=no', '-C', 'debug-assertions=off', '-C', 'overflow-checks=on',
           '-Awarnings']
    with open(out, 'w') as f:
        r = subprocess.run(cmd, cwd=repo, stdout=f, stderr=subprocess.PIPE, env=ENV, text=True)
    if r.returncode != 0:
        log(r.stderr[-4000:])
        raise RuntimeError('MIR dump failed')
    return out, time.time() - t


def build_native(base, repo):
    t = time.time()
    cmd = ['cargo', 'build', '--offline', '--bin', 'verif_replay', '--target-dir', os.path.join(base, 'target-native')]
    env = dict(ENV, RUSTFLAGS='-Awarnings')
    r = subprocess.run(cmd, cwd=repo, stdout=subprocess.PIPE, stderr=subprocess.PIPE, env=env, text=True)
    if r.returncode != 0:
        log(r.stderr[-4000:])
        raise RuntimeError('native build failed')
    return os.path.join(base, 'target-native/debug/verif_replay'), time.time() - t


def start_kani(base, repo):
    """second engine: all #[kani::proof] harnesses of harness/kani_h.rs, in the same scratch copy"""
    log_path = os.path.join(base, 'kani.log')
    cmd = ['cargo', 'kani', '-j', '8', '--output-format', 'terse', '--target-dir', os.path.join(base, 'target-kani')]
    f = open(log_path, 'w')
    p = subprocess.Popen(cmd, cwd=repo, stdout=f, stderr=subprocess.STDOUT, env=ENV)
    return p, log_path, time.time()


def finish_kani(k, timeout=1500):
    import re
    p, log_path, t0 = k
    try:
        p.wait(timeout=timeout)
    except subprocess.TimeoutExpired:
        p.kill()
        return {'status': 'timeout', 'time_s': round(time.time() - t0, 1)}
    txt = open(log_path).read()
    names = re.findall(r'Checking harness ([\w:]+)', txt)
    ok_n = len(re.findall(r'VERIFICATION:- SUCCESSFUL', txt))
    bad_n = len(re.findall(r'VERIFICATION:- FAILED', txt))
    m = re.search(r'Complete - (\d+) successfully verified harnesses, (\d+) failures, (\d+) total', txt)
    failed = re.findall(r'Verification failed for - ([\w:]+)', txt)
    covers = re.findall(r'(\d+) of (\d+) cover properties satisfied', txt)
    status = 'ok' if (m and int(m.group(2)) == 0 and int(m.group(1)) == int(m.group(3)) and int(m.group(3)) > 0
                      and p.returncode == 0) else 'failed'
    return {'status': status, 'harnesses': sorted(set(names)), 'successful': ok_n, 'failed': bad_n,
            'failed_harnesses': failed, 'covers_satisfied': [f'{a}/{b}' for a, b in covers][:40],
            'engine': 'kani 0.68 / CBMC 6.11 (cadical)', 'unwind': 6, 'time_s': round(time.time() - t0, 1),
            'log_tail': '' if status == 'ok' else txt[-1500:]}


# ------------------------------------------------------------------------------ workers
_W = {}


def _worker_init(mir_path, srcroot, kf, seed, step_cap, opts):
    from .program import Program
    from .engine import Engine
    prog = Program(open(mir_path).read(), srcroot, extra_src=[os.path.join(os.path.dirname(srcroot), 'harness')])
    _W['prog'] = prog
    def mk(alt=None):
        e = Engine(prog, kf_listed=kf, seed=seed, step_cap=step_cap, alt=alt)
        for k, v in (opts or {}).items():
            setattr(e, k, v)
        return e
    _W['mk'] = mk
    _W['E'] = mk()
    _W['cur'] = _W['E']


def _watchdog():
    """a solver call that neither returns nor honours its time limit cannot be aborted from Python: leave the
    process; the driver re-runs the work unit once with the fallback solver and otherwise reports a gap"""
    while True:
        time.sleep(2)
        e = _W.get('cur')
        d = getattr(e, 'deadline', None) if e is not None else None
        if d is not None and time.time() > d:
            os._exit(86)


def _worker_main(conn, initargs):
    import threading
    _worker_init(*initargs)
    threading.Thread(target=_watchdog, daemon=True).start()
    while True:
        try:
            job = conn.recv()
        except (EOFError, OSError):
            break
        if job is None:
            break
        args, alt = job
        if alt:
            if 'E_alt' not in _W:
                _W['E_alt'] = _W['mk']('sat')
            _W['cur'] = _W['E_alt']
        else:
            _W['cur'] = _W['E']
        try:
            res = _explore(args)
        except BaseException:
            res = _lost_result(args, 'worker exception: ' + traceback.format_exc()[-800:])
        conn.send(res)


def _lost_result(args, msg):
    hname, prefix, budget = args
    return hname, [{'outcome': 'gap', 'msg': msg, 'decisions': prefix, 'inputs': [], 'obs': [], 'steps': 0,
                    'checks': [], 'covers': [], 'kf': [], 'violations': []}], [], \
        {'queries': 0, 'qtime': 0.0, 'branches': 0, 'fns': [], 'models': [], 'bounds': [], 'xq': []}


class _Handle:
    def __init__(self, pool, args):
        self.pool = pool
        self.args = args
        self.alt = False
        self.res = None

    def ready(self):
        if self.res is None:
            self.pool.pump()
        return self.res is not None

    def get(self):
        return self.res


class HPool:
    """process pool whose workers may be lost (see _watchdog)"""

    def __init__(self, n, initargs):
        import collections
        self.initargs = initargs
        self.workers = []
        self.queue = collections.deque()
        self.kills = {}
        self.t_pump = 0.0
        for _ in range(n):
            self._spawn()

    def _spawn(self):
        parent, child = mp.Pipe()
        p = mp.Process(target=_worker_main, args=(child, self.initargs), daemon=True)
        p.start()
        child.close()
        w = {'p': p, 'c': parent, 'job': None}
        self.workers.append(w)
        return w

    def apply_async(self, fn, args):
        h = _Handle(self, args[0])
        self.queue.append(h)
        return h

    def _lost(self, h, code):
        hname = h.args[0]
        k = self.kills[hname] = self.kills.get(hname, 0) + 1
        log(f'  [watchdog] worker lost (exit {code}) on {hname} prefix of {len(h.args[1])} decisions'
            f'{" (fallback solver)" if h.alt else ""}; lost so far for this harness: {k}')
        if not h.alt and k <= 8:
            h.alt = True
            h.args = (h.args[0], h.args[1], min(h.args[2], 8))
            self.queue.appendleft(h)
        else:
            h.res = _lost_result(h.args, 'solver hang: the worker had to be killed because a z3 call neither finished '
                                 'nor honoured its time limit' + (' (also with the SAT fallback)' if h.alt else ''))

    def pump(self):
        now = time.time()
        if now - self.t_pump < 0.002:
            return
        self.t_pump = now
        for w in list(self.workers):
            h = w['job']
            dead = False
            if h is not None:
                try:
                    if w['c'].poll():
                        h.res = w['c'].recv()
                        w['job'] = None
                        h = None
                except (EOFError, OSError):
                    dead = True
            if not dead and not w['p'].is_alive():
                dead = True
            if dead:
                self.workers.remove(w)
                try:
                    w['c'].close()
                except OSError:
                    pass
                w['p'].join(1)
                if h is not None and h.res is None:
                    self._lost(h, w['p'].exitcode)
                self._spawn()
                continue
            if w['job'] is None and self.queue:
                h = self.queue.popleft()
                try:
                    w['c'].send((h.args, h.alt))
                    w['job'] = h
                except (OSError, BrokenPipeError):
                    self.queue.appendleft(h)

    def cancel(self, hname):
        """drop the queued work units of one harness and stop the ones in flight (their workers are replaced)"""
        n = 0
        for h in list(self.queue):
            if h.args[0] == hname:
                self.queue.remove(h)
                h.res = (hname, [], [h.args[1]], _lost_result(h.args, '')[3])
                n += 1
        for w in list(self.workers):
            h = w['job']
            if h is not None and h.args[0] == hname:
                w['p'].terminate()
                w['p'].join(2)
                self.workers.remove(w)
                try:
                    w['c'].close()
                except OSError:
                    pass
                h.res = (hname, [], [h.args[1]], _lost_result(h.args, '')[3])
                n += 1
                self._spawn()
        return n

    def __enter__(self):
        return self

    def __exit__(self, *a):
        for w in self.workers:
            try:
                w['c'].send(None)
            except (OSError, BrokenPipeError):
                pass
        for w in self.workers:
            w['p'].join(2)
            if w['p'].is_alive():
                w['p'].terminate()
        return False


def find_harness(prog, name):
    for f in prog.fns:
        if f.name == 'verif_harness::' + name:
            return f
    raise KeyError('harness not found in MIR: ' + name)


def _explore(args):
    """explore the subtree below `prefix` up to `budget` paths; return results + leftover prefixes"""
    hname, prefix, budget = args
    from .values import ModelGap
    E = _W.get('cur') or _W['E']
    entry = find_harness(_W['prog'], hname)
    stack = [prefix]
    out = []
    n = 0
    q0, t0, b0 = E.nqueries, E.qtime, E.nbranches
    E.bounds_seen = set()
    E.xq = []
    t_job = time.time()
    while stack and n < budget and (n == 0 or time.time() - t_job < 90):
        p = stack.pop()
        try:
            r = E.run_path(entry, p)
        except ModelGap as g:
            out.append({'outcome': 'gap', 'msg': str(g), 'decisions': p, 'inputs': [], 'obs': [], 'steps': 0,
                        'checks': [], 'covers': [], 'kf': [], 'violations': []})
            n += 1
            stack.extend(E.pending)
            continue
        except Exception:
            out.append({'outcome': 'gap', 'msg': 'engine exception: ' + traceback.format_exc()[-1500:],
                        'decisions': p, 'inputs': [], 'obs': [], 'steps': 0, 'checks': [], 'covers': [], 'kf': [],
                        'violations': []})
            n += 1
            stack.extend(getattr(E, 'pending', []))
            continue
        stack.extend(E.pending)
        n += 1
        out.append({'outcome': r.outcome, 'msg': r.msg, 'decisions': r.decisions, 'inputs': r.inputs, 'obs': r.obs,
                    'steps': r.steps, 'checks': r.checks, 'covers': r.covers, 'kf': r.kf,
                    'violations': E.violations})
    stats = {'queries': E.nqueries - q0, 'qtime': E.qtime - t0, 'branches': E.nbranches - b0,
             'fns': sorted(E.functions_encoded), 'models': sorted(E.models_used), 'bounds': sorted(E.bounds_seen), 'xq': E.xq}
    return hname, out, stack, stats


XCAP = 150


def crosscheck(queries, outdir, tag):
    """re-decide sampled z3 queries with cvc5; returns (n, agree, undecided, [files of disagreements])"""
    import concurrent.futures
    import tempfile
    d = tempfile.mkdtemp(prefix='xq-', dir='/var/tmp')

    def one(iq):
        i, (verdict, text) = iq
        f = os.path.join(d, f'{i}.smt2')
        with open(f, 'w') as fh:
            fh.write('(set-logic ALL)\n' + text)
        try:
            r = subprocess.run(['cvc5', '--lang', 'smt2', '--tlimit', '30000', f], capture_output=True, text=True,
                               timeout=60)
            lines = r.stdout.split()
            out = lines[0] if lines else 'error'
            if '(error' in r.stdout or out not in ('sat', 'unsat'):
                out = 'undecided'
        except Exception:
            out = 'undecided'
        return i, verdict, out

    agree = und = 0
    bad = []
    with concurrent.futures.ThreadPoolExecutor(max_workers=int(os.environ.get('VERIF_JOBS', '16'))) as ex:
        for i, verdict, out in ex.map(one, enumerate(queries)):
            if out == 'undecided':
                und += 1
            elif out == verdict:
                agree += 1
            else:
                dst = os.path.join(outdir, f'{tag}-solver-disagreement-{i}.smt2')
                os.makedirs(outdir, exist_ok=True)
                shutil.copy(os.path.join(d, f'{i}.smt2'), dst)
                bad.append(dst)
    shutil.rmtree(d, ignore_errors=True)
    return len(queries), agree, und, bad


class HarnessResult:
    def __init__(self, name):
        self.name = name
        self.xq = []
        self.xseen = 0
        self.cancelled = False
        self.hangs = []
        self.paths = 0
        self.ok = 0
        self.panics = []
        self.gaps = []
        self.violations = []
        self.witnesses = []     # (inputs, obs, checks, outcome)
        self.covers = set()
        self.checks = 0
        self.kf = {}
        self.transitions = 0
        self.steps = 0
        self.queries = 0
        self.qtime = 0.0
        self.fns = set()
        self.models = set()
        self.truncated = False
        self.bounds = set()


def explore_harnesses(pool, names, max_paths, seed, time_budget=None):
    """breadth: all harnesses share the pool"""
    res = {n: HarnessResult(n) for n in names}
    pending = []
    for n in names:
        pending.append(pool.apply_async(_explore, ((n, [], 8),)))
    t0 = time.time()
    rnd = random.Random(seed)
    t_log = [time.time()]
    while pending:
        nxt = []
        progressed = False
        for a in pending:
            if not a.ready():
                nxt.append(a)
                continue
            progressed = True
            hname, out, left, stats = a.get()
            hr = res[hname]
            hr.queries += stats['queries']
            hr.qtime += stats['qtime']
            hr.transitions += stats['branches']
            hr.fns.update(stats['fns'])
            hr.models.update(stats['models'])
            hr.bounds.update(stats['bounds'])
            hr.xseen += len(stats['xq'])
            for q in stats['xq']:
                # reservoir of sampled solver queries for the cvc5 cross-check
                if len(hr.xq) < XCAP:
                    hr.xq.append(q)
                else:
                    j = rnd.randrange(hr.xseen)
                    if j < XCAP:
                        hr.xq[j] = q
            for r in out:
                hr.paths += 1
                hr.steps += r['steps']
                for v in r['violations']:
                    hr.violations.append({'check': v[0], 'inputs': v[1], 'decisions': v[2]})
                if r['outcome'] == 'gap':
                    hr.gaps.append(r['msg'])
                    continue
                if r['outcome'] == 'infeasible':
                    continue
                hr.checks += len(r['checks'])
                hr.covers.update(r['covers'])
                for role, inp in r['kf']:
                    hr.kf.setdefault(role, inp)
                if r['outcome'] == 'hang':
                    hr.hangs.append({'msg': r['msg'], 'inputs': r['inputs'], 'decisions': r['decisions']})
                    continue
                if r['outcome'] == 'panic':
                    hr.panics.append({'msg': r['msg'], 'inputs': r['inputs'], 'decisions': r['decisions']})
                else:
                    hr.ok += 1
                hr.witnesses.append((r['inputs'], r['obs'], r['checks'], r['outcome'], r['msg']))
            over = hr.paths >= max_paths or (time_budget and time.time() - t0 > time_budget) \
                or len(hr.violations) + len(hr.panics) > 200 or len(hr.gaps) > 20 or len(hr.hangs) > 3
            if over:
                if left:
                    hr.truncated = True
                if not hr.cancelled and hasattr(pool, 'cancel'):
                    # enough found (or too much unknown) for this harness: do not wait for the units in flight
                    hr.cancelled = True
                    if pool.cancel(hname):
                        hr.truncated = True
                continue
            rnd.shuffle(left)
            # split leftover prefixes into jobs
            per = max(1, min(16, len(left) // 32 + 1))
            for i in range(0, len(left), per):
                for p in left[i:i + per]:
                    nxt.append(pool.apply_async(_explore, ((hname, p, 64),)))
        pending = nxt
        if not progressed:
            time.sleep(0.01)
        if time.time() - t_log[0] > 30:
            t_log[0] = time.time()
            log('  [progress %ds] ' % (time.time() - t0) + ' '.join(f'{h.split("::")[-1]}={r.paths}' for h, r in res.items()) + f' jobs={len(pending)}')
    return res


# ------------------------------------------------------------------------------ native replay
def write_script(path, cases):
    with open(path, 'w') as f:
        for cid, harness, inputs in cases:
            f.write(f'CASE {cid} {harness}\n')
            for k, t, v in inputs:
                f.write(f'{k} {t} {v}\n')
            f.write('END\n')


def parse_transcript(text):
    out = {}
    cur = None
    for l in text.split('\n'):
        if l.startswith('CASE '):
            cur = {'obs': [], 'checks': [], 'covers': [], 'end': None, 'kf': []}
            out[l.split(' ')[1]] = cur
        elif cur is None:
            continue
        elif l.startswith('OBS '):
            _, t, v = l.split(' ', 2)
            cur['obs'].append((t, v))
        elif l.startswith('CHECK '):
            _, t, v = l.split(' ', 2)
            cur['checks'].append((t, v == '1'))
        elif l.startswith('KF '):
            _, t, v = l.split(' ', 2)
            cur['kf'].append((t, v == '1'))
        elif l.startswith('PANIC'):
            cur['end'] = l
        elif l in ('DONE', 'NOHARNESS'):
            cur['end'] = l
        elif l == 'ASSUME-FAILED':
            cur['end'] = 'ASSUME-FAILED'
    return out


def native_run(binary, base, cases, timeout=None):
    sp = os.path.join(base, 'script.txt')
    op = os.path.join(base, 'transcript.txt')
    write_script(sp, cases)
    r = subprocess.run([binary, sp, op], stdout=subprocess.PIPE, stderr=subprocess.PIPE, text=True, timeout=timeout)
    if r.returncode != 0:
        raise RuntimeError('native replay crashed: ' + r.stderr[-2000:])
    return parse_transcript(open(op).read())


# ------------------------------------------------------------------------------ main
def load_kf():
    p = os.path.join(VERIF, 'known_findings.json')
    if not os.path.exists(p):
        return {'known': [], 'fixed': []}
    return json.load(open(p))


def solver_versions():
    import z3
    return {'z3': z3.get_version_string()}


def run_props(prop_ids, tier, seed, keep=False):
    from . import props as P
    t_start = time.time()
    kf = load_kf()
    listed = {k['role']: k for k in kf.get('known', [])}
    base, repo = prepare_scratch('-'.join(prop_ids)[:20])
    rc = 0
    try:
        with mp.Pool(2) as bp:
            a1 = bp.apply_async(dump_mir, (base, repo))
            a2 = bp.apply_async(build_native, (base, repo))
            mir, t_mir = a1.get()
            binary, t_nat = a2.get()
        log(f'[setup] MIR dump {t_mir:.1f}s, native build {t_nat:.1f}s')
        kani = None
        if any(P.PROPS[p].get('kani') for p in prop_ids) and not os.environ.get('VERIF_NO_KANI'):
            kani = start_kani(base, repo)
        kani_res = None
        for pid in prop_ids:
            cfg = P.PROPS[pid]
            if cfg.get('kani') and kani is not None and kani_res is None:
                # explore first, collect the second engine afterwards
                pass
            rc = max(rc, run_one(pid, cfg, tier, seed, base, repo, mir, binary, listed, t_mir + t_nat,
                                 kani if cfg.get('kani') else None, prop_ids))
        if kani is not None and kani[0].poll() is None:
            kani[0].kill()
    finally:
        if not keep:
            shutil.rmtree(base, ignore_errors=True)
    return rc


_KANI_CACHE = {}


def run_one(pid, cfg, tier, seed, base, repo, mir, binary, listed, t_setup, kani=None, prop_ids=()):
    t0 = time.time()
    names = cfg['harnesses']
    max_paths = cfg.get('max_paths', {}).get(tier, 200000 if tier == 'quick' else 3000000)
    opts = {'tier': tier}
    ncpu = int(os.environ.get('VERIF_JOBS', '16'))
    with HPool(ncpu, (mir, repo, set(listed), seed, cfg.get('step_cap', 3_000_000), opts)) as pool:
        tb = cfg.get('time_budget', {}).get(tier)
        if os.environ.get('VERIF_TIME_BUDGET'):
            tb = float(os.environ['VERIF_TIME_BUDGET'])     # measuring aid: a truncated run is inconclusive (exit 2)
        res = explore_harnesses(pool, names, max_paths, seed, tb)
    t_explore = time.time() - t0
    # ---- native replay -------------------------------------------------------------
    cap = cfg.get('witness_cap', {}).get(tier, 4000 if tier == 'quick' else 20000)
    rnd = random.Random(seed)
    cases = []
    expect = {}
    for h, hr in res.items():
        ws = hr.witnesses
        if len(ws) > cap:
            ws = rnd.sample(ws, cap)
        for i, w in enumerate(ws):
            cid = f'w{len(cases)}'
            cases.append((cid, h, w[0]))
            expect[cid] = ('witness', h, w)
        for i, v in enumerate(hr.violations[:50]):
            cid = f'v{len(cases)}'
            cases.append((cid, h, v['inputs']))
            expect[cid] = ('violation', h, v)
        for i, v in enumerate(hr.panics[:50]):
            cid = f'p{len(cases)}'
            cases.append((cid, h, v['inputs']))
            expect[cid] = ('panic', h, v)
    tr = native_run(binary, base, cases) if cases else {}
    divergences = []
    confirmed = []
    validated = 0
    # paths over the interpreter's step cap: each is run natively on its own under a time limit; only a native run that
    # does not finish either is reported (as a hang), a native run that finishes means the interpreter is just slow
    for h, hr in res.items():
        for k, v in enumerate(hr.hangs[:3]):
            sp = os.path.join(base, f'hang-{k}.txt')
            write_script(sp, [('h0', h, v['inputs'])])
            try:
                subprocess.run([binary, sp, sp + '.out'], stdout=subprocess.PIPE, stderr=subprocess.PIPE, timeout=20)
                divergences.append((h, 'step cap exceeded symbolically (' + v['msg'] + ') but the native run finishes '
                                    'within 20 s', v['inputs']))
            except subprocess.TimeoutExpired:
                confirmed.append((h, 'hang', v['inputs'], 'native run did not finish within 20 s; ' + v['msg']))
    for cid, (kind, h, x) in expect.items():
        t = tr.get(cid)
        if t is None:
            divergences.append((h, 'no transcript', cid))
            continue
        if kind == 'witness':
            inputs, obs, checks, outcome, msg = x
            nat_end = t['end'] or ''
            nat_panic = nat_end.startswith('PANIC') and 'replay exhausted' not in nat_end and 'replay desync' not in nat_end
            if nat_end.startswith('PANIC') and not nat_panic:
                divergences.append((h, f'native replay desynchronised: {nat_end}', x[0]))
                continue
            okk = (outcome == 'panic') == nat_panic
            okk = okk and [(a, b) for a, b in t['obs']][:len(obs)] == [(a, str(b)) for a, b in obs][:len(t['obs'])]
            if outcome == 'ok':
                okk = okk and len(t['obs']) == len(obs) and all(v for _, v in t['checks'])
            if okk:
                validated += 1
            else:
                divergences.append((h, f'witness mismatch sym={outcome}:{msg} obs={obs} native={t}', inputs))
        elif kind == 'violation':
            bad = [c for c, v in t['checks'] if c == x['check'] and not v]
            if bad:
                confirmed.append((h, x['check'], x['inputs'], 'check'))
            else:
                divergences.append((h, f'counterexample for {x["check"]} does not reproduce natively: {t}', x['inputs']))
        else:
            end = t['end'] or ''
            if end.startswith('PANIC') and 'replay exhausted' not in end and 'replay desync' not in end:
                confirmed.append((h, 'panic', x['inputs'], t['end']))
            else:
                # the native run did not panic where the symbolic run did (running out of replay inputs means it
                # went on past that point): a model is wrong, not the code under test
                divergences.append((h, f'panic path does not reproduce natively: {x["msg"]} native={t}', x['inputs']))
    # ---- verdict ---------------------------------------------------------------------
    out_lines = []
    rc = 0
    gaps = [(h, g) for h, hr in res.items() for g in hr.gaps]
    trunc = [h for h, hr in res.items() if hr.truncated]
    missing_cover = []
    for h, hr in res.items():
        for c in cfg.get('covers', {}).get(h, []):
            if c not in hr.covers:
                missing_cover.append((h, c))
        if hr.checks == 0 and not cfg.get('no_checks_ok'):
            missing_cover.append((h, '<no check reached>'))
    kf_seen = {}
    for h, hr in res.items():
        for role, inp in hr.kf.items():
            kf_seen.setdefault(role, (h, inp))
    for role, (h, inp) in sorted(kf_seen.items()):
        if role in listed and listed[role]['property'] == pid:
            out_lines.append(f'KNOWN-FINDING: property={pid} {role}: {listed[role]["what"]} (witness {h} {inp})')
    rdir = os.environ.get('VERIF_REPLAY_DIR', os.path.join(VERIF, 'replays'))
    os.makedirs(rdir, exist_ok=True)
    viol_files = []
    seen = set()
    for h, chk, inputs, how in confirmed:
        key = (h, chk)
        if key in seen:
            continue
        seen.add(key)
        body = {'property': pid, 'harness': h, 'check': chk, 'inputs': inputs, 'native': how}
        hh = hashlib.sha1(json.dumps(body, sort_keys=True).encode()).hexdigest()[:10]
        path = os.path.join(rdir, f'{pid}-{h.replace("::", "-")}-{hh}.json')
        json.dump(body, open(path, 'w'), indent=1)
        viol_files.append(path)
        out_lines.append(f'VIOLATION property={pid} replay={path}')
        log(f'  violation {h} {chk}: inputs={inputs} ({how})')
        rc = 1
    kani_res = None
    if kani is not None:
        if 'res' not in _KANI_CACHE:
            _KANI_CACHE['res'] = finish_kani(kani)
        kani_res = _KANI_CACHE['res']
        if kani_res['status'] != 'ok':
            log(f'INCONCLUSIVE {pid}: second engine (Kani) did not verify the comparator laws: '
                f'{kani_res.get("failed_harnesses")} {kani_res["status"]} {kani_res.get("log_tail", "")[-600:]}')
    # ---- second solver: cvc5 re-decides a sample of the z3 queries ---------------------------------
    xqs = [q for hr in res.values() for q in hr.xq]
    xc = {'solver': 'cvc5', 'sampled': 0, 'agree': 0, 'undecided': 0, 'disagree': 0}
    if xqs and not os.environ.get('VERIF_NO_XCHECK'):
        n, agree, und, bad = crosscheck(xqs, rdir, pid)
        xc.update(sampled=n, agree=agree, undecided=und, disagree=len(bad), files=bad,
                  queries_seen_by_sampler=sum(hr.xseen for hr in res.values()))
        for b in bad[:5]:
            log(f'INCONCLUSIVE {pid}: SOLVER-DISAGREEMENT z3 and cvc5 decide {b} differently')
    if rc == 0 and (gaps or divergences or trunc or missing_cover or xc['disagree']
                    or (kani_res and kani_res['status'] != 'ok')):
        rc = 2
    for h, g in gaps[:10]:
        log(f'INCONCLUSIVE {pid} {h}: model gap: {g[:600]}')
    for h, d, inp in divergences[:10]:
        log(f'INCONCLUSIVE {pid} {h}: ENGINE-DIVERGENCE {str(d)[:800]} inputs={inp}')
    for h in trunc:
        log(f'INCONCLUSIVE {pid} {h}: path cap / time budget hit before the space was exhausted')
    for h, c in missing_cover:
        log(f'INCONCLUSIVE {pid} {h}: cover point never reached: {c}')
    # ---- evidence ----------------------------------------------------------------------
    wall = time.time() - t0 + t_setup
    states = sum(hr.paths for hr in res.values())
    samples = []
    for h, hr in res.items():
        for w in hr.witnesses[:3]:
            samples.append({'harness': h, 'inputs': w[0], 'observations': w[1], 'outcome': w[3]})
    ev = {
        'property_id': pid, 'tier': tier, 'seed': seed, 'level': 'model_checking',
        'coverage': {
            'states': states,
            'transitions': sum(hr.transitions for hr in res.values()),
            'traces_validated_against_impl': validated,
            'samples': samples or [{'note': 'no completed path'}],
            'exhaustive': not (gaps or trunc),
            'rule': 'states = control-flow paths of the real MIR (harness + crate code + reference model) explored by '
                    'forking symbolic execution; each path stands for every input satisfying its path condition; '
                    'each sym::check on a path is one solver query pc && !cond',
            'harnesses': {h: {'paths': hr.paths, 'completed': hr.ok, 'panic_paths': len(hr.panics),
                              'checks_discharged': hr.checks, 'violations': len(hr.violations),
                              'solver_queries': hr.queries, 'solver_time_s': round(hr.qtime, 2),
                              'mir_steps': hr.steps, 'covers': sorted(hr.covers), 'gaps': len(hr.gaps),
                              'truncated': hr.truncated,
                              'bounds': sorted(hr.bounds)} for h, hr in res.items()},
            'functions_encoded': sorted(set().union(*[hr.fns for hr in res.values()]) if res else []),
            'models_used': sorted(set().union(*[hr.models for hr in res.values()]) if res else []),
            'queries': sum(hr.queries for hr in res.values()),
            'solver_time_s': round(sum(hr.qtime for hr in res.values()), 2),
            'solver': solver_versions(),
            'bounds': 'per harness: the symbolic generators actually executed (tag: length range in units of the alphabet; '
                      'choose = concrete fork); everything beyond these ranges is outside the claim',
            'outside_claim': cfg.get('outside', ''),
            'known_findings_seen': sorted(kf_seen),
            'inconclusive': {'gaps': len(gaps), 'divergences': len(divergences), 'truncated': trunc,
                             'missing_covers': missing_cover},
            'explore_time_s': round(t_explore, 1),
            'kani': kani_res or 'not run for this property',
            'second_solver_crosscheck': xc,
        },
        'assumptions': cfg.get('assumptions', []) + [
            'rustc nightly MIR printer + mirsym parser/interpreter; std models in /verif/mirsym/models*.py '
            '(validated by native replay of path witnesses)', 'z3 is sound'],
        'wall_s': round(wall, 1),
        'violations': len(viol_files),
    }
    evdir = os.environ.get('VERIF_EVIDENCE_DIR', os.path.join(VERIF, 'evidence'))
    os.makedirs(evdir, exist_ok=True)
    json.dump(ev, open(os.path.join(evdir, pid + '.json'), 'w'), indent=1, default=str)
    for l in out_lines:
        print(l, flush=True)
    log(f'[{pid}] tier={tier} paths={states} checks={sum(hr.checks for hr in res.values())} '
        f'validated={validated} violations={len(viol_files)} rc={rc} explore={t_explore:.1f}s wall={wall:.1f}s')
    return rc


def replay_file(path):
    body = json.load(open(path))
    base, repo = prepare_scratch('replay')
    try:
        binary, _ = build_native(base, repo)
        try:
            tr = native_run(binary, base, [('r0', body['harness'], [tuple(x) for x in body['inputs']])], timeout=30)
        except subprocess.TimeoutExpired:
            print('native run did not finish within 30 s')
            print(f'VIOLATION property={body["property"]} replay={path}')
            return 1
        t = tr['r0']
        print(json.dumps(t, indent=1))
        end = t['end'] or ''
        bad = [c for c, v in t['checks'] if not v] or (end.startswith('PANIC') and 'replay exhausted' not in end
                                                        and 'replay desync' not in end)
        if bad:
            print(f'VIOLATION property={body["property"]} replay={path}')
            return 1
        return 0
    finally:
        shutil.rmtree(base, ignore_errors=True)


def main(argv):
    import argparse
    ap = argparse.ArgumentParser()
    ap.add_argument('props', nargs='+')
    ap.add_argument('--tier', default=os.environ.get('VERIF_TIER', 'quick'))
    ap.add_argument('--keep', action='store_true')
    a = ap.parse_args(argv)
    seed = int(os.environ.get('VERIF_SEED', '0') or 0)
    if a.props[0] == 'replay':
        return replay_file(a.props[1])
    return run_props(a.props, a.tier, seed, a.keep)


if __name__ == '__main__':
    sys.exit(main(sys.argv[1:]))
