"""Program = parsed MIR of the crate (+ mounted harness) with call-target resolution.

rustc prints bodies of methods as `mod::<impl at FILE:L:C: L:C>::name` (not unique!) and calls as
`mod::Type::name` / `<mod::Type as Trait>::name`.  The resolver maps (self type, trait, method)
to a body by reading the source text at the printed span (impl header or derive token) and, where
several bodies share a name (thiserror's From impls), by matching the argument type.
"""
import os
import re
from functools import lru_cache
from .mirparse import parse_mir, split_top, match_paren

IMPL_RE = re.compile(r'^(.*?)<impl at ([^:>]+):(\d+):(\d+): (\d+):(\d+)>::(.*)$')

CRATE_MODS = {'digest', 'distinfo', 'pkgdb', 'plist', 'summary', 'depend', 'dewey', 'metadata', 'pattern',
              'pkgname', 'pkgpath', 'scanindex', 'verif_harness'}


def skip_angle(s, i):
    """s[i] == '<'; return index just past the matching '>'"""
    depth = 0
    n = len(s)
    while i < n:
        c = s[i]
        if c == '<':
            depth += 1
        elif c == '>' and s[i - 1] not in '-=':
            depth -= 1
            if depth == 0:
                return i + 1
        i += 1
    raise ValueError('angle: ' + s)


@lru_cache(maxsize=None)
def strip_generics(s):
    """remove generic argument lists but keep `<impl ...>` and leading `<T as Trait>` structure"""
    out = []
    i = 0
    n = len(s)
    while i < n:
        if s.startswith('::<', i) and not s.startswith('::<impl ', i):
            i = skip_angle(s, i + 2)
            continue
        if s[i] == '<' and i > 0 and (s[i - 1].isalnum() or s[i - 1] == '_'):
            i = skip_angle(s, i)
            continue
        out.append(s[i])
        i += 1
    return ''.join(out)


@lru_cache(maxsize=None)
def _split_path(s):
    """split on top-level '::'"""
    out = []
    depth = 0
    cur = []
    i = 0
    n = len(s)
    while i < n:
        c = s[i]
        if c in '<([{':
            depth += 1
        elif c in ')]}':
            depth -= 1
        elif c == '>' and s[i - 1] not in '-=':
            depth -= 1
        if depth == 0 and s.startswith('::', i):
            out.append(''.join(cur))
            cur = []
            i += 2
            continue
        cur.append(c)
        i += 1
    out.append(''.join(cur))
    return tuple(out)


def split_path(s):
    return list(_split_path(s))


@lru_cache(maxsize=None)
def type_last(t):
    """short name of a type: last path segment, refs/generics stripped"""
    t = t.strip()
    while True:
        if t.startswith('&'):
            t = t[1:].lstrip()
            t = re.sub(r"^'\w+\s+", '', t)
            if t.startswith('mut '):
                t = t[4:]
            continue
        if t.startswith('*const ') or t.startswith('*mut '):
            t = t.split(' ', 1)[1]
            continue
        break
    if t.startswith('dyn '):
        return 'dyn'
    if t.startswith('['):
        return 'slice' if ';' not in split_top_semicolon(t) else 'array'
    if t.startswith('('):
        return 'tuple' if t != '()' else 'unit'
    if t.startswith('{closure'):
        return 'closure'
    if t.startswith('<'):   # <T as Trait>::Assoc
        return t
    t = strip_generics(t)
    return split_path(t)[-1]


def split_top_semicolon(t):
    # is there a top-level ';' inside the outer [] ?
    inner = t[1:-1]
    return ';' if len(split_top(inner, ';')) == 2 else ''


def strip_refs(t):
    t = t.strip()
    while t.startswith('&'):
        t = t[1:].lstrip()
        t = re.sub(r"^'\w+\s+", '', t)
        if t.startswith('mut '):
            t = t[4:]
    return t


class CallInfo:
    __slots__ = ('raw', 'kind', 'self_ty', 'trait', 'trait_last', 'trait_args', 'method', 'targs', 'keys',
                 'self_last', 'segs', 'stripped')

    def __repr__(self):
        return f'CallInfo({self.raw})'


def generic_args(seg):
    """generic args of a path segment / type like Foo<A, B> or ::<A, B>"""
    i = seg.find('<')
    if i < 0:
        return []
    j = skip_angle(seg, i)
    return split_top(seg[i + 1:j - 1])


_ci_cache = {}


def callinfo(name):
    ci = _ci_cache.get(name)
    if ci is not None:
        return ci
    ci = CallInfo()
    ci.raw = name
    ci.targs = []
    ci.trait = ci.trait_last = None
    ci.trait_args = []
    ci.self_ty = None
    ci.stripped = strip_generics(name)
    if name.startswith('<'):
        j = skip_angle(name, 0)
        inner = name[1:j - 1]
        rest = name[j:]
        # find top-level ' as '
        depth = 0
        k = -1
        i = 0
        while i < len(inner):
            c = inner[i]
            if c in '<([{':
                depth += 1
            elif c in ')]}' or (c == '>' and inner[i - 1] not in '-='):
                depth -= 1
            elif depth == 0 and inner.startswith(' as ', i):
                k = i
                break
            i += 1
        segs = split_path(rest.lstrip(':'))
        ci.method = strip_generics(segs[0]) if segs else ''
        if len(segs) > 1 and segs[1].startswith('<'):
            ci.targs = generic_args(segs[1])
        elif segs and '<' in segs[0]:
            ci.targs = generic_args(segs[0])
        if len(segs) > 1 and not segs[1].startswith('<'):
            ci.method = '::'.join(strip_generics(x) for x in segs)   # e.g. {closure#0}
        if k >= 0:
            ci.kind = 'trait'
            ci.self_ty = inner[:k]
            ci.trait = inner[k + 4:]
            ci.trait_last = split_path(strip_generics(ci.trait))[-1]
            tl = split_path(ci.trait)[-1]
            ci.trait_args = generic_args(tl)
            ci.self_last = type_last(ci.self_ty)
            ci.keys = [f'<{ci.self_last} as {ci.trait_last}>::{ci.method}', f'{ci.trait_last}::{ci.method}']
        else:
            ci.kind = 'qself'
            ci.self_ty = inner
            ci.self_last = type_last(inner)
            ci.keys = [f'{ci.self_last}::{ci.method}']
        ci.segs = segs
    else:
        ci.kind = 'path'
        segs = split_path(name)
        ss = []
        for i, sg in enumerate(segs):
            if sg.startswith('<') and not sg.startswith('<impl'):
                if i == len(segs) - 1:
                    ci.targs = generic_args(sg)
                continue
            ss.append(sg)
        if segs and '<' in segs[-1] and not segs[-1].startswith('<'):
            ci.targs = generic_args(segs[-1])
        ss2 = []
        for sg in ss:
            if sg.startswith('<impl'):
                inner = sg[5:-1].strip()
                # `<impl Trait for Type>` or `<impl Type>`
                if ' for ' in inner:
                    inner = inner.split(' for ', 1)[1]
                ss2.append(type_last(inner))
            else:
                ss2.append(strip_generics(sg))
        ci.segs = ss2
        ci.method = ss2[-1]
        ci.self_last = ss2[-2] if len(ss2) > 1 else None
        ci.self_ty = None
        # generic args of the type segment (e.g. Vec::<T>::new) are in the segment after it
        ci.keys = ['::'.join(ss2[-2:]), '::'.join(ss2)]
        # type-level generics: the segment following the type name
        for i, sg in enumerate(segs):
            if sg.startswith('<') and not sg.startswith('<impl') and i == len(segs) - 2:
                ci.trait_args = generic_args(sg)   # reuse slot: generics of the type
    _ci_cache[name] = ci
    return ci


def strip_comments(src):
    src = re.sub(r'/\*.*?\*/', lambda m: re.sub(r'[^\n]', ' ', m.group(0)), src, flags=re.S)
    src = re.sub(r'//[^\n]*', lambda m: ' ' * len(m.group(0)), src)
    return src


def parse_enums(src):
    """{enum name: [variant names in order]} from Rust source text"""
    out = {}
    src = strip_comments(src)
    for m in re.finditer(r'\benum\s+(\w+)[^{;]*\{', src):
        i = m.end() - 1
        try:
            j = match_paren(src, i)
        except Exception:
            continue
        body = src[i + 1:j]
        vs = []
        for part in split_top(body):
            part = part.strip()
            while part.startswith('#['):
                k = match_paren(part, 1)
                part = part[k + 1:].strip()
            mm = re.match(r'^(\w+)\s*(\(?)', part)
            if mm:
                vs.append(mm.group(1))
                if mm.group(2):
                    TUPLE_VARIANTS.add((m.group(1), mm.group(1)))
        out[m.group(1)] = vs
    return out


TUPLE_VARIANTS = {('Option', 'Some'), ('Result', 'Ok'), ('Result', 'Err'), ('Cow', 'Borrowed'), ('Cow', 'Owned'),
                  ('Component', 'Normal'), ('ControlFlow', 'Continue'), ('ControlFlow', 'Break')}

STD_ENUMS = {
    'Option': {'None': 0, 'Some': 1},
    'Result': {'Ok': 0, 'Err': 1},
    'Ordering': {'Less': -1, 'Equal': 0, 'Greater': 1},
    'Cow': {'Borrowed': 0, 'Owned': 1},
    'Component': {'Prefix': 0, 'RootDir': 1, 'CurDir': 2, 'ParentDir': 3, 'Normal': 4},
    'ControlFlow': {'Continue': 0, 'Break': 1},
    'Entry': {'Occupied': 0, 'Vacant': 1},
    'Bound': {'Included': 0, 'Excluded': 1, 'Unbounded': 2},
    'ErrorKind': {'NotFound': 0, 'PermissionDenied': 1, 'ConnectionRefused': 2, 'AlreadyExists': 12, 'InvalidInput': 20,
                  'InvalidData': 21, 'TimedOut': 22, 'WriteZero': 23, 'Interrupted': 35, 'Unsupported': 36,
                  'UnexpectedEof': 37, 'OutOfMemory': 38, 'Other': 39},
}


class Program:
    def __init__(self, mir_text, srcroot, extra_src=()):
        self.srcroot = srcroot
        self.fns = parse_mir(mir_text)
        self.by_name = {}
        for f in self.fns:
            self.by_name.setdefault(f.name, []).append(f)
        self.srccache = {}
        self.enums = {k: dict(v) for k, v in STD_ENUMS.items()}
        self.crate_enums = set()
        self.unit_structs = {'RangeFull', 'PhantomData'}
        self.struct_fields = {}
        self.index = {}        # (self_last, trait_last|None, method) -> [Fn]
        self.closures = {}     # '{closure@file:span}' -> Fn
        self.promoted = {}     # stripped name -> Fn
        self.fn_span = {}
        self._scan_sources(extra_src)
        self._build_index()
        self._resolve_cache = {}

    # ---- sources ------------------------------------------------------------
    def src(self, path):
        if path not in self.srccache:
            p = path if path.startswith('/') else os.path.join(self.srcroot, path)
            self.srccache[path] = open(p).read().split('\n')
        return self.srccache[path]

    def _scan_sources(self, extra):
        files = []
        sd = os.path.join(self.srcroot, 'src')
        for fn in sorted(os.listdir(sd)):
            if fn.endswith('.rs'):
                files.append(os.path.join(sd, fn))
        for d in extra:
            for fn in sorted(os.listdir(d)):
                if fn.endswith('.rs'):
                    files.append(os.path.join(d, fn))
        for p in files:
            txt = open(p).read()
            for mm in re.finditer(r'\bstruct\s+(\w+)\s*;', strip_comments(txt)):
                self.unit_structs.add(mm.group(1))
            for name, vs in parse_enums(txt).items():
                self.enums[name] = {v: i for i, v in enumerate(vs)}
                self.crate_enums.add(name)

    # ---- index ---------------------------------------------------------------
    def _impl_header(self, f, l, c, l2, c2):
        """-> (trait_last|None, self_last|None, is_derive_token)"""
        lines = self.src(f)
        line = lines[l - 1]
        hdr = line[c - 1:]
        if hdr.startswith('impl'):
            # join continuation lines up to '{'
            k = l
            while '{' not in hdr and k < len(lines):
                hdr += ' ' + lines[k].strip()
                k += 1
            h = hdr[4:].lstrip()
            if h.startswith('<'):
                h = h[skip_angle(h, 0):].lstrip()
            h = h.split('{')[0].strip()
            h = re.split(r'\bwhere\b', h)[0].strip()
            # top-level ' for '
            depth = 0
            k = -1
            for i, ch in enumerate(h):
                if ch in '<([':
                    depth += 1
                elif ch in ')]' or (ch == '>' and h[i - 1] not in '-='):
                    depth -= 1
                elif depth == 0 and h.startswith(' for ', i):
                    k = i
                    break
            if k >= 0:
                tr = h[:k].strip()
                ty = h[k + 5:].strip()
                return split_path(strip_generics(tr))[-1], type_last(ty), False, generic_args(split_path(tr)[-1])
            return None, type_last(h), False, []
        # derive token
        tok = line[c - 1:c2 - 1] if l == l2 else line[c - 1:]
        ty = None
        for k in range(l - 1, min(l + 40, len(lines))):
            mm = re.match(r'^\s*(?:pub(?:\([^)]*\))?\s+)?(?:struct|enum)\s+(\w+)', lines[k])
            if mm:
                ty = mm.group(1)
                break
        return tok, ty, True, []

    def _build_index(self):
        for f in self.fns:
            name = f.name
            if f.kind == 'const' or '::promoted[' in name:
                self.promoted.setdefault(self._promoted_key(name), f)
            m = IMPL_RE.match(name)
            if f.params:
                t0 = strip_refs(f.params[0][1])
                if t0.startswith('{closure@') and ('{closure#' in name):
                    self.closures[t0] = f
            if not m:
                continue
            mod, fl, l, c, l2, c2, meth = m.groups()
            tr, ty, derive, targs = self._impl_header(fl, int(l), int(c), int(l2), int(c2))
            if '::' in meth:     # closure / promoted inside a method
                if '::promoted[' in meth or f.kind == 'const':
                    self.promoted[strip_generics(f'{mod}{ty}::{meth}')] = f
                continue
            if f.kind == 'const':     # associated const of an impl
                self.promoted[strip_generics(f'{mod}{ty}::{meth}')] = f
            if derive:
                tr = self._derive_trait(tr, meth)
            f.idx = (ty, tr, meth, targs)
            self.index.setdefault((ty, tr, meth), []).append(f)

    @staticmethod
    def _derive_trait(tok, meth):
        if tok == 'Error':      # thiserror
            return {'fmt': 'Display', 'source': 'Error', 'from': 'From'}.get(meth, 'Error')
        if tok == 'Eq':
            return 'Eq'
        if tok in ('Deserialize', 'Serialize', 'DeserializeFromStr'):
            return tok
        return tok

    def _promoted_key(self, name):
        n = strip_generics(name)
        n = re.sub(r'<impl at [^>]*>::', '', n)
        return n

    def find_promoted(self, path):
        if path.startswith('<'):
            # <mod::Type as Trait<..>>::method::promoted[N]
            j = skip_angle(path, 0)
            inner = path[1:j - 1]
            k = inner.find(' as ')
            ty = inner[:k] if k >= 0 else inner
            path = strip_refs(ty) + path[j:]
        n = strip_generics(path)
        segs = split_path(n)
        # drop the type segment: `distinfo::Line::from_bytes::promoted[0]` vs `distinfo::from_bytes::promoted[0]`
        cands = [n]
        for i in range(len(segs)):
            cands.append('::'.join(segs[:i] + segs[i + 1:]))
        for c in cands:
            if c in self.promoted:
                return self.promoted[c]
        return None

    # ---- resolution -------------------------------------------------------------
    def resolve(self, name, arg_types=None):
        """callee path -> Fn or None"""
        key = name
        if key in self._resolve_cache:
            return self._resolve_cache[key]
        r = self._resolve(name)
        self._resolve_cache[key] = r
        return r

    def _is_crate_type(self, ty):
        t = strip_refs(ty or '')
        seg0 = split_path(strip_generics(t))[0] if t else ''
        return seg0 in CRATE_MODS

    def _resolve(self, name):
        fl = self.by_name.get(name)
        if fl and len(fl) == 1:
            return fl[0]
        ci = callinfo(name)
        st = ci.stripped
        fl = self.by_name.get(st)
        if fl and len(fl) == 1:
            return fl[0]
        if ci.kind == 'trait':
            if not self._is_crate_type(ci.self_ty) and not self._is_crate_type(ci.trait):
                return None
            if ci.self_ty.lstrip().startswith('&') and not self._is_crate_type(ci.trait):
                return None      # std's blanket impl for references (it derefs and forwards)
            cands = self.index.get((ci.self_last, ci.trait_last, ci.method))
            if not cands:
                return None
            if len(cands) == 1:
                return cands[0]
            # disambiguate on first parameter type vs trait generic arg (From<X>)
            if ci.trait_args:
                want = strip_generics(ci.trait_args[0])
                for f in cands:
                    if f.params and strip_generics(f.params[0][1]) == want:
                        return f
            return cands[0]
        if ci.kind == 'path':
            segs = split_path(st)
            if len(segs) >= 2 and segs[0] in CRATE_MODS:
                # closure inside a method: mod::Type::method::{closure#0}
                cands = [f for f in self.index.get((ci.self_last, None, ci.method), [])
                         if f.name.startswith(segs[0] + '::')]
                if cands:
                    return cands[0]
                # enum-variant constructor fns / tuple struct ctors are handled by the engine
                # nested items: mod::Type::method::{closure#N}
                if '{closure#' in st or '{constant#' in st:
                    n2 = self._nested(segs)
                    if n2:
                        return n2
            return None
        return None

    def _nested(self, segs):
        # find body whose name ends with the trailing segments after dropping the type segment
        tail = '::'.join(segs[-2:])
        for nm, fl in self.by_name.items():
            if nm.endswith(tail) and IMPL_RE.match(nm):
                return fl[0]
        return None
