"""Parser for `rustc -Zunpretty=mir` text.

Every statement / terminator form that occurs must parse; anything unknown raises
(never silently skipped).  Statements are parsed lazily per function.
"""
import re

CHAR_RE = re.compile(r"'(\\u\{[0-9a-fA-F]+\}|\\x[0-9a-fA-F]{2}|\\.|[^'\\])'")


class Fn:
    __slots__ = ('name', 'sig', 'params', 'ret', 'locals', 'raw_blocks', '_blocks', 'nargs', 'kind', 'idx')

    def __init__(self, name, sig):
        self.name = name
        self.sig = sig
        self.params = []     # [(local idx, type str)]
        self.ret = None
        self.locals = {}     # idx -> type string
        self.raw_blocks = {}  # idx -> [stmt text]
        self._blocks = None
        self.nargs = 0
        self.kind = 'fn'

    @property
    def blocks(self):
        if self._blocks is None:
            self._blocks = {b: [parse_stmt(s) for s in st] for b, st in self.raw_blocks.items()}
        return self._blocks


def split_top(s, sep=','):
    out = []
    depth = 0
    cur = []
    i = 0
    n = len(s)
    while i < n:
        c = s[i]
        if c == '"':
            j = i + 1
            while s[j] != '"':
                if s[j] == '\\':
                    j += 1
                j += 1
            cur.append(s[i:j + 1])
            i = j + 1
            continue
        if c == "'":
            m = CHAR_RE.match(s, i)
            if m:
                cur.append(m.group(0))
                i = m.end()
                continue
        if c in '([{<':
            depth += 1
            cur.append(c)
        elif c in ')]}>':
            if c == '>' and i > 0 and s[i - 1] in '-=':
                cur.append(c)
            else:
                depth -= 1
                cur.append(c)
        elif c == sep and depth == 0:
            out.append(''.join(cur).strip())
            cur = []
        else:
            cur.append(c)
        i += 1
    t = ''.join(cur).strip()
    if t:
        out.append(t)
    return out


def match_paren(s, i):
    """s[i] is an opening bracket; return index of matching close."""
    op = s[i]
    cl = {'(': ')', '[': ']', '{': '}', '<': '>'}[op]
    depth = 0
    j = i
    n = len(s)
    while j < n:
        c = s[j]
        if c == '"':
            j += 1
            while s[j] != '"':
                if s[j] == '\\':
                    j += 1
                j += 1
        elif c == "'" and CHAR_RE.match(s, j):
            j = CHAR_RE.match(s, j).end() - 1
        elif c == op:
            depth += 1
        elif c == cl:
            if not (c == '>' and s[j - 1] in '-='):
                depth -= 1
                if depth == 0:
                    return j
        j += 1
    raise ValueError('unbalanced: ' + s)


# ---- places -------------------------------------------------------------
def parse_place(s):
    """returns (place, rest).
    place = ('local', n) | ('deref', p) | ('field', p, n, ty) | ('downcast', p, variant)
          | ('index', p, localn) | ('cindex', p, n, from_end) | ('subslice', p, from, from_end, to)"""
    s = s.lstrip()
    if s[0] == '(':
        j = match_paren(s, 0)
        inner = s[1:j]
        rest = s[j + 1:]
        if inner.startswith('*'):
            p, r = parse_place(inner[1:])
            assert r.strip() == '', (inner, r)
            base = ('deref', p)
        else:
            p, r = parse_place(inner)
            r = r.strip()
            m = re.match(r'^\.(\d+): ', r)
            if m:
                base = ('field', p, int(m.group(1)), r[m.end():])
            elif r.startswith('as '):
                base = ('downcast', p, r[3:].strip())
            else:
                raise ValueError('place? ' + s)
    elif s[0] == '*':
        p, rest = parse_place(s[1:])
        return ('deref', p), rest
    else:
        m = re.match(r'_(\d+)', s)
        if not m:
            raise ValueError('place?? ' + s)
        base = ('local', int(m.group(1)))
        rest = s[m.end():]
    while rest.startswith('['):
        j = match_paren(rest, 0)
        idx = rest[1:j]
        m = re.match(r'^_(\d+)$', idx)
        if m:
            base = ('index', base, int(m.group(1)))
        else:
            m = re.match(r'^(-?)(\d+) of (\d+)$', idx)
            if m:
                base = ('cindex', base, int(m.group(2)), bool(m.group(1)))
            else:
                m = re.match(r'^(\d+):(-?)(\d*)$', idx)
                if m:
                    base = ('subslice', base, int(m.group(1)), m.group(2) == '-', int(m.group(3) or 0))
                else:
                    raise ValueError('index? ' + rest)
        rest = rest[j + 1:]
    return base, rest


def unescape(body):
    out = bytearray()
    i = 0
    while i < len(body):
        c = body[i]
        if c == '\\':
            d = body[i + 1]
            if d == 'n':
                out.append(10); i += 2
            elif d == 't':
                out.append(9); i += 2
            elif d == 'r':
                out.append(13); i += 2
            elif d == '0':
                out.append(0); i += 2
            elif d == '\\':
                out.append(92); i += 2
            elif d == '"':
                out.append(34); i += 2
            elif d == "'":
                out.append(39); i += 2
            elif d == 'x':
                out.append(int(body[i + 2:i + 4], 16)); i += 4
            elif d == 'u':
                j = body.index('}', i)
                out += chr(int(body[i + 3:j], 16)).encode()
                i = j + 1
            else:
                raise ValueError(body)
        else:
            out += c.encode()
            i += 1
    return bytes(out)


INT_RE = re.compile(r'^(-?\d+)_(u8|u16|u32|u64|u128|usize|i8|i16|i32|i64|i128|isize)$')


def parse_const(s):
    s = s.strip()
    m = INT_RE.match(s)
    if m:
        return ('int', int(m.group(1)), m.group(2))
    if s in ('true', 'false'):
        return ('bool', s == 'true')
    if s == '()':
        return ('unit',)
    if s.startswith('"'):
        return ('str', unescape(s[1:-1]))
    if s.startswith('b"'):
        return ('bstr', unescape(s[2:-1]))
    if s.startswith("'"):
        return ('char', ord(unescape(s[1:-1]).decode()))
    if s.startswith("b'"):
        return ('int', unescape(s[2:-1])[0], 'u8')
    return ('path', s)


BINOPS = {'Eq', 'Ne', 'Lt', 'Le', 'Gt', 'Ge', 'Add', 'Sub', 'Mul', 'Div', 'Rem', 'BitAnd', 'BitOr', 'BitXor',
          'Shl', 'Shr', 'AddWithOverflow', 'SubWithOverflow', 'MulWithOverflow', 'Offset', 'Cmp',
          'AddUnchecked', 'SubUnchecked', 'MulUnchecked', 'ShlUnchecked', 'ShrUnchecked'}
UNOPS = {'Not', 'Neg', 'PtrMetadata'}


def parse_operand(s):
    s = s.strip()
    if s.startswith('no_retag '):
        s = s[9:]
    if s.startswith('copy '):
        p, r = parse_place(s[5:])
        assert not r.strip(), s
        return ('copy', p)
    if s.startswith('move '):
        p, r = parse_place(s[5:])
        assert not r.strip(), s
        return ('move', p)
    if s.startswith('const '):
        return ('const', parse_const(s[6:]))
    return ('const', parse_const(s))


def _split_cast(s):
    """`OPERAND as TYPE (CastKind(..))` -> (operand, type, kind) or None"""
    if not s.endswith(')'):
        return None
    depth = 0
    i = len(s) - 1
    while i >= 0:
        if s[i] == ')':
            depth += 1
        elif s[i] == '(':
            depth -= 1
            if depth == 0:
                break
        i -= 1
    if i <= 0 or s[i - 1] != ' ':
        return None
    kind = s[i + 1:-1]
    if not re.match(r'^[A-Z]\w*', kind):
        return None
    head = s[:i - 1]
    # top-level ' as ' (the last one outside brackets)
    depth = 0
    k = -1
    j = 0
    while j < len(head):
        ch = head[j]
        if ch in '([{<':
            depth += 1
        elif ch in ')]}' or (ch == '>' and head[j - 1] not in '-='):
            depth -= 1
        elif depth == 0 and head.startswith(' as ', j):
            k = j
        j += 1
    if k < 0:
        return None
    return head[:k], head[k + 4:], kind


def parse_rvalue(s):
    s = s.strip()
    if s.startswith('no_retag '):
        s = s[9:]
    if s.startswith(('copy ', 'move ', 'const ')):
        c = _split_cast(s)
        if c:
            return ('cast', parse_operand(c[0]), c[1], c[2])
        return ('use', parse_operand(s))
    c = _split_cast(s)
    if c and not s.startswith(('&', '(', '[')) and re.match(r'^[A-Za-z_<]', c[0]) \
            and (' ' not in c[0].split('::<')[0] or re.match(r'^<.*>::\w+(::<.*>)?$', c[0])):
        # cast of a bare path (fn item / constructor) e.g. `mod::Enum::Variant as fn(T) -> Enum (PointerCoercion(..))`
        return ('cast', ('const', ('path', c[0])), c[1], c[2])
    if s.startswith('&raw const (fake) '):
        return ('ref', parse_place(s[18:])[0], 'raw')
    if s.startswith('&raw const '):
        return ('ref', parse_place(s[11:])[0], 'raw')
    if s.startswith('&raw mut '):
        return ('ref', parse_place(s[9:])[0], 'raw')
    if s.startswith('&mut '):
        return ('ref', parse_place(s[5:])[0], 'mut')
    if s.startswith('&fake '):
        t = re.sub(r'^(shallow|deep) ', '', s[6:])
        return ('ref', parse_place(t)[0], 'fake')
    if s.startswith('&'):
        t = s[1:]
        t = re.sub(r"^'\w+ ", '', t)
        return ('ref', parse_place(t)[0], 'shared')
    m = re.match(r'^(\w+)\((.*)\)$', s)
    if m and m.group(1) in BINOPS:
        a, b = split_top(m.group(2))
        return ('binop', m.group(1), parse_operand(a), parse_operand(b))
    if m and m.group(1) in UNOPS:
        return ('unop', m.group(1), parse_operand(m.group(2)))
    if m and m.group(1) == 'discriminant':
        return ('discr', parse_place(m.group(2))[0])
    if m and m.group(1) == 'Len':
        return ('len', parse_place(m.group(2))[0])
    if m and m.group(1) == 'CopyForDeref':
        return ('use', ('copy', parse_place(m.group(2))[0]))
    if m and m.group(1) == 'ShallowInitBox':
        raise ValueError('ShallowInitBox unsupported: ' + s)
    if s.startswith('(') and match_paren(s, 0) == len(s) - 1:
        parts = split_top(s[1:-1])
        return ('tuple', [parse_operand(p) for p in parts])
    if s.startswith('['):
        inner = s[1:-1]
        parts = split_top(inner, ';')
        if len(parts) == 2:
            return ('repeat', parse_operand(parts[0]), parts[1])
        return ('array', [parse_operand(p) for p in split_top(inner)])
    if s.startswith('{closure') or s.startswith('{coroutine'):
        j = match_paren(s, 0)
        name = s[:j + 1]
        rest = s[j + 1:].strip()
        fields = []
        if rest.startswith('{'):
            body = rest[1:-1].strip()
            for f in split_top(body):
                k, v = f.split(': ', 1)
                fields.append((k.strip(), parse_operand(v)))
        return ('closure', name, fields)
    # struct aggregate  Path { f: op, .. }
    if s.endswith('}') and ' { ' in s:
        i = s.index(' { ')
        path = s[:i]
        body = s[i + 3:-1].strip()
        fields = []
        for f in split_top(body):
            k, v = f.split(': ', 1)
            fields.append((k.strip(), parse_operand(v)))
        return ('struct', path, fields)
    # variant / tuple-struct ctor  Path(op, ...)
    if s.endswith(')'):
        depth = 0
        for i in range(len(s) - 1, -1, -1):
            if s[i] == ')':
                depth += 1
            elif s[i] == '(':
                depth -= 1
                if depth == 0:
                    break
        path = s[:i]
        args = split_top(s[i + 1:-1])
        return ('ctor', path, [parse_operand(a) for a in args])
    return ('ctor', s, [])   # unit variant / unit struct


def parse_targets(s):
    out = {}
    s = s.strip()
    if not s.startswith('['):
        m = re.match(r'^bb(\d+)$', s)
        if m:
            return {'return': int(m.group(1))}
        return {}
    for part in split_top(s[1:-1]):
        if ':' in part:
            k, v = part.split(':', 1)
            v = v.strip()
            m = re.match(r'bb(\d+)', v)
            out[k.strip()] = int(m.group(1)) if m else v
    return out


def parse_call(s):
    """s like 'FUNC(ARGS)'; returns (func_str, [operands])"""
    depth = 0
    for i in range(len(s) - 1, -1, -1):
        if s[i] == ')':
            depth += 1
        elif s[i] == '(':
            depth -= 1
            if depth == 0:
                break
    f = s[:i].strip()
    args = [parse_operand(a) for a in split_top(s[i + 1:-1])]
    if f.startswith(('move _', 'copy _')):     # call through a fn pointer / fn item value
        return ('indirect', parse_operand(f)), args
    return f, args


NOP_PREFIX = ('StorageLive', 'StorageDead', 'nop', 'FakeRead', 'PlaceMention', 'AscribeUserType', 'Retag',
              'Coverage', 'ConstEvalCounter', 'BackwardIncompatibleDropHint', 'Deinit(')


def parse_stmt(line):
    line = line.strip()
    assert line.endswith(';'), line
    s = line[:-1]
    if s.startswith(NOP_PREFIX):
        return ('nop',)
    if s.startswith('assume('):
        return ('assume', parse_operand(s[7:-1]))
    if s in ('return', 'resume', 'unreachable') or s.startswith('unwind '):
        return ('term', s)
    if s.startswith('goto -> '):
        return ('goto', int(s[10:]))
    if s.startswith('switchInt('):
        j = match_paren(s, 9)
        tg = parse_targets(s[j + 1:].replace('->', '', 1))
        other = tg.pop('otherwise', None)
        return ('switch', parse_operand(s[10:j]), [(int(k), v) for k, v in tg.items()], other)
    if s.startswith('drop('):
        j = match_paren(s, 4)
        return ('drop', parse_place(s[5:j])[0], parse_targets(s[j + 1:].replace('->', '', 1)))
    if s.startswith('assert('):
        j = match_paren(s, 6)
        args = split_top(s[7:j])
        cond = args[0]
        neg = False
        if cond.startswith('!'):
            neg = True
            cond = cond[1:]
        return ('assert', parse_operand(cond), neg, args[1] if len(args) > 1 else '',
                parse_targets(s[j + 1:].replace('->', '', 1)))
    m = re.match(r'^discriminant\((.*)\) = (\d+)$', s)
    if m:
        return ('setdiscr', parse_place(m.group(1))[0], int(m.group(2)))
    if ' -> ' in s and (s.rstrip().endswith(']') or ' -> unwind' in s or re.search(r' -> bb\d+$', s)):
        k = s.rindex(' -> ')
        head = s[:k]
        tail = s[k + 4:]
        tg = parse_targets(tail)
        if re.match(r'^[(_*]', head) and not head.startswith(('move ', 'copy ')):
            pl, r = parse_place(head)
            r = r.strip()
            if r.startswith('= '):
                f, args = parse_call(r[2:])
                return ('call', pl, f, args, tg)
        f, args = parse_call(head)
        return ('call', None, f, args, tg)
    pl, r = parse_place(s)
    r = r.strip()
    assert r.startswith('= '), s
    return ('assign', pl, parse_rvalue(r[2:]))


HDR_CONST = re.compile(r'^(const|static(?: mut)?) ((?:<impl at [^>]*>|[^:<]|:(?! )|<)*?): (.*) = \{$')


def parse_mir(text):
    """returns list of Fn (names are NOT unique: see resolver)."""
    fns = []
    lines = text.split('\n')
    i = 0
    n = len(lines)
    while i < n:
        l = lines[i]
        f = None
        if l.startswith('fn '):
            k = 3
            # the name may contain '<impl at ...>' but never '(' before the arg list
            p = l.index('(', k)
            # closures: name contains '{closure#0}' -- no parens; ok
            j = match_paren(l, p)
            name = l[3:p]
            f = Fn(name, l)
            for a in split_top(l[p + 1:j]):
                m = re.match(r'^_(\d+): (.*)$', a)
                f.params.append((int(m.group(1)), m.group(2)))
            f.nargs = len(f.params)
            m = re.match(r'^ -> (.*) \{$', l[j + 1:])
            f.ret = m.group(1) if m else '()'
        elif l.startswith(('const ', 'static ')) and l.rstrip().endswith('{'):
            m = HDR_CONST.match(l.rstrip())
            if m:
                f = Fn(m.group(2), l)
                f.ret = m.group(3)
                f.kind = 'const'
        if f is None:
            mm = re.match(r'^const ((?:<impl at [^>]*>|[^:<]|:(?! )|<)*?): (.*?) = const (.*);$', l.rstrip())
            if mm:   # one-line constant item
                f = Fn(mm.group(1), l)
                f.ret = mm.group(2)
                f.kind = 'const'
                f.raw_blocks[0] = [f'_0 = const {mm.group(3)};', 'return;']
                fns.append(f)
            i += 1
            continue
        i += 1
        cur = None
        while i < n and lines[i] != '}':
            t = lines[i].strip()
            m = re.match(r'^let (mut )?_(\d+): (.*);$', t)
            if m:
                f.locals[int(m.group(2))] = m.group(3)
            else:
                m = re.match(r'^bb(\d+)( \(cleanup\))?: \{$', t)
                if m:
                    cur = int(m.group(1))
                    f.raw_blocks[cur] = []
                elif t == '}':
                    if cur is not None and lines[i].startswith('    }'):
                        cur = None
                elif cur is not None and t and not t.startswith('//'):
                    f.raw_blocks[cur].append(t)
            i += 1
        for idx, ty in f.params:
            f.locals[idx] = ty
        fns.append(f)
        i += 1
    return fns


if __name__ == '__main__':
    import sys
    fns = parse_mir(open(sys.argv[1]).read())
    bad = 0
    tot = 0
    for f in fns:
        for b, stmts in f.raw_blocks.items():
            for s in stmts:
                tot += 1
                try:
                    parse_stmt(s)
                except Exception as e:
                    bad += 1
                    if bad < 40:
                        print('FAIL', f.name[:50], '|', s[:200], '|', repr(e)[:100])
    print(len(fns), 'fns', tot, 'stmts', bad, 'unparsed')
