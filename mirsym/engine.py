"""Forking symbolic interpreter over rustc MIR with z3 (decision-prefix replay)."""
import re
import sys
import time
import z3

from .values import *
from .program import callinfo, strip_generics, split_path, type_last, strip_refs
from . import models as M

sys.setrecursionlimit(20000)
import os
TRACE = bool(os.environ.get('TRACE'))


class Frame:
    __slots__ = ('fn', 'L', 'ci', 'site')

    def __init__(self, fn, L, ci):
        self.fn = fn
        self.L = L
        self.ci = ci


class Violation:
    def __init__(self, check_id, inputs, decisions, kind='check', msg=''):
        self.check_id = check_id
        self.inputs = inputs
        self.decisions = decisions
        self.kind = kind
        self.msg = msg


class PathResult:
    __slots__ = ('outcome', 'msg', 'inputs', 'obs', 'decisions', 'steps', 'checks', 'covers', 'kf')


class Engine:
    def __init__(self, prog, kf_listed=(), step_cap=3_000_000, seed=0, alt=None):
        self.prog = prog
        # default: z3's incremental SMT core.  Fallback (used for work units whose worker had to be killed because a
        # query neither finished nor honoured its time limit): bit-blasting to SAT, everything re-solved per query
        self.alt = alt or os.environ.get('VERIF_SOLVER')
        if self.alt == 'sat':
            self.solver = z3.Then('simplify', 'propagate-values', 'solve-eqs', 'ackermannize_bv', 'simplify',
                                  'bit-blast', 'sat').solver()
        elif self.alt == 'qfbv':
            self.solver = z3.SolverFor('QF_UFBV')
        else:
            self.solver = z3.Solver()
        self.deadline = None
        self.retried = 0
        self.path_wall_cap = 300
        self.path_t0 = time.time()
        self.xrate = int(os.environ.get('VERIF_XCHECK_RATE', '199'))
        self.xq = []
        self.last_retry_model = None
        if seed:
            self.solver.set('random_seed', seed % (2 ** 31))
        self.kf_listed = set(kf_listed)
        self.step_cap = step_cap
        self.nqueries = 0
        self.qtime = 0.0
        self.functions_encoded = set()
        self.models_used = set()
        self.assumes = []
        self.ufs = {}
        self.nbranches = 0
        self._ev_cache = {}
        self._dcache = {}
        self.bounds_seen = set()
        self.assume_sites = set()
        self._vars = {}
        self._simp = {}

    # ------------------------------------------------------------------ solver
    def _check(self, *c):
        self.nqueries += 1
        t = time.time()
        # (re)applied before every query: a limit set earlier was observed not to be honoured by z3 5.1 once the
        # solver had been pushed
        self.solver.set('timeout', 30000)
        self.deadline = t + 30 + 45
        r = self.solver.check(*c)
        self.deadline = None
        if r == z3.unknown:
            # per-query time limit hit (or incompleteness): retry once in a fresh solver with another seed
            s2 = z3.Solver()
            s2.set('timeout', 90000)
            s2.set('random_seed', 7 + self.nqueries % 1000)
            for a in self.solver.assertions():
                s2.add(a)
            self.deadline = time.time() + 90 + 45
            r = s2.check(*c)
            self.deadline = None
            self.last_retry_model = s2.model() if r == z3.sat else None
            self.retried += 1
        else:
            self.last_retry_model = None
        self.qtime += time.time() - t
        if self.xrate and r != z3.unknown and self.nqueries % self.xrate == 0 and len(self.xq) < 4:
            # sampled for the second-solver cross-check (driver runs cvc5 on it)
            sx = z3.Solver()
            for a in self.solver.assertions():
                sx.add(a)
            for a in c:
                sx.add(a)
            self.xq.append(('sat' if r == z3.sat else 'unsat', sx.to_smt2()))
        if r == z3.unknown:
            raise ModelGap('solver returned unknown (time limit 30 s + 90 s retry in a fresh solver): ' + self.solver.reason_unknown())
        return r == z3.sat

    def need_model(self):
        if self.model is None:
            if not self._check():
                raise Infeasible()
            self.model = self.last_retry_model or self.solver.model()
        return self.model

    def eval_bool(self, cond):
        m = self.need_model()
        v = m.eval(cond, model_completion=True)
        if z3.is_true(v):
            return True
        if z3.is_false(v):
            return False
        v = z3.simplify(v)
        return z3.is_true(v)

    def _take(self, cond, d):
        c = cond if d else z3.Not(cond)
        self.solver.add(c)
        self.pc.append(c)
        self.taken.append(d)
        self.k += 1
        self.nbranches += 1

    def branch(self, cond):
        """fork on a boolean; returns the side taken on this path"""
        if isinstance(cond, bool):
            return cond
        sc = self._simp.get(id(cond))
        if sc is None:
            c2 = z3.simplify(cond)
            sc = (c2, True if z3.is_true(c2) else (False if z3.is_false(c2) else None), cond)
            self._simp[id(cond)] = sc
        if sc[1] is not None:
            return sc[1]
        cond = sc[0]
        if self.k < len(self.prefix):
            d = self.prefix[self.k]
            if self.model is not None and self.eval_bool(cond) != d:
                self.model = None
            self._take(cond, d)
            return d
        mv = self.eval_bool(cond)
        other = z3.Not(cond) if mv else cond
        if self._check(other):
            self.pending.append(list(self.taken) + [not mv])
            self._take(cond, mv)
        else:
            # the other side is infeasible: cond is implied by the path condition, asserting it again would only make
            # the solver state grow (quadratic cost in loops whose exit test is already decided)
            self.taken.append(mv)
            self.k += 1
            self.nbranches += 1
        return mv

    def assume(self, cond):
        if isinstance(cond, bool):
            if not cond:
                raise Infeasible()
            return
        cond = z3.simplify(cond)
        if z3.is_true(cond):
            return
        self.solver.add(cond)
        self.pc.append(cond)
        if self.model is not None and not self.eval_bool(cond):
            self.model = None
        self.need_model()

    def fresh(self, name, width):
        n = self.fresh_ctr.get(name, 0)
        self.fresh_ctr[name] = n + 1
        k = (name, n, width)
        v = self._vars.get(k)
        if v is None:
            v = self._vars[k] = z3.BitVec(f'{name}#{n}' if n else name, width)
        return v

    def fresh_bool(self, name):
        n = self.fresh_ctr.get(name, 0)
        self.fresh_ctr[name] = n + 1
        k = (name, n, 0)
        v = self._vars.get(k)
        if v is None:
            v = self._vars[k] = z3.Bool(f'{name}#{n}' if n else name)
        return v

    def concretize(self, x, what='value'):
        """fork over the feasible values of scalar x (used for symbolic indices / lengths)"""
        if isinstance(x, I):
            if x.conc():
                return x.v
            n = 0
            while True:
                m = self.need_model()
                v = m.eval(x.v, model_completion=True).as_long()
                if self.branch(x.v == z3.BitVecVal(v, x.v.size())):
                    return mkint(x.t, v).v
                n += 1
                if n > 64:
                    raise ModelGap('concretize: too many values for ' + what)
        raise ModelGap('concretize ' + repr(x))

    def model_value(self, x):
        """concrete python value of scalar x under the current model"""
        if isinstance(x, bool):
            return x
        if isinstance(x, I):
            if x.conc():
                return x.v
            return mkint(x.t, self.need_model().eval(x.v, model_completion=True).as_long()).v
        if z3.is_bool(x):
            return self.eval_bool(x)
        raise ModelGap('model_value ' + repr(x))

    # ------------------------------------------------------------------ exploration
    def run_path(self, entry, prefix):
        """execute one path following `prefix`; returns PathResult; self.pending holds new prefixes"""
        self.prefix = prefix
        self.k = 0
        self.pending = []
        self.pc = []
        self.taken = []
        self.model = None
        self.fresh_ctr = {}
        self.inputs = []      # [(kind, tag, value-spec)]
        self.obs = []
        self.steps = 0
        self.path_checks = []
        self.path_covers = []
        self.path_kf = []
        self.violations = []
        self.depth = 0
        self.path_state = {}
        self.fs = None
        self.solver.push()
        self.path_t0 = time.time()
        r = PathResult()
        try:
            try:
                self.call_fn(entry, [], None)
                r.outcome = 'ok'
                r.msg = ''
            except Panic as p:
                r.outcome = 'panic'
                r.msg = str(p)
            except Hang as p:
                # reported with the inputs of this path; the driver decides by running them natively under a time limit
                r.outcome = 'hang'
                r.msg = str(p)
            except (Infeasible, PathAbort):
                r.outcome = 'infeasible'
                r.msg = ''
            if r.outcome != 'infeasible':
                try:
                    self.need_model()
                    r.inputs = self.concrete_inputs()
                    r.obs = [(t, self.concrete_obs(v)) for t, v in self.obs]
                except Infeasible:
                    r.outcome = 'infeasible'
            if r.outcome == 'infeasible':
                r.inputs = []
                r.obs = []
            r.decisions = list(self.taken)
            r.steps = self.steps
            r.checks = self.path_checks
            r.covers = self.path_covers
            r.kf = self.path_kf
        finally:
            self.solver.pop()
        return r

    def concrete_inputs(self, model=None):
        m = model or self.need_model()
        out = []
        for kind, tag, val in self.inputs:
            if kind == 'bytes':
                bs = bytes(self._ev(m, b) & 0xff for b in val)
                out.append((kind, tag, bs.hex()))
            elif kind == 'bool':
                out.append((kind, tag, '1' if self._evb(m, val) else '0'))
            elif kind in ('choose', 'kf', 'bound'):
                out.append((kind, tag, str(val)))
            else:
                out.append((kind, tag, str(self._ev(m, val))))
        return out

    def _ev(self, m, x):
        if isinstance(x, I):
            if x.conc():
                return x.v
            return mkint(x.t, m.eval(x.v, model_completion=True).as_long()).v
        return x

    def _evb(self, m, x):
        if isinstance(x, bool):
            return x
        return z3.is_true(z3.simplify(m.eval(x, model_completion=True)))

    def concrete_obs(self, v):
        m = self.need_model()
        if isinstance(v, list):
            return 'x' + bytes(self._ev(m, b) & 0xff for b in v).hex()
        if isinstance(v, bool) or z3.is_bool(v):
            return '1' if self._evb(m, v) else '0'
        return str(self._ev(m, v))

    # ------------------------------------------------------------------ MIR execution
    def call_fn(self, fn, args, ci):
        self.functions_encoded.add(fn.name)
        self.depth += 1
        if self.depth > 400:
            raise ModelGap('call depth in ' + fn.name)
        try:
            return self._exec(fn, args, ci)
        finally:
            self.depth -= 1

    def _exec(self, fn, args, ci):
        blocks = fn.blocks
        L = {}
        for (idx, _), a in zip(fn.params, args):
            L[idx] = a
        if len(args) != len(fn.params):
            raise ModelGap(f'arity mismatch calling {fn.name}: {len(args)} vs {len(fn.params)}')
        fr = Frame(fn, L, ci)
        fr.site = None
        bb = 0
        while True:
            for si, st in enumerate(blocks[bb]):
                k = st[0]
                if k == 'nop':
                    continue
                self.steps += 1
                fr.site = (bb, si)
                if k == 'assign':
                    v = self.rvalue(fr, st[2])
                    if st[2][0] == 'discr' and st[1][0] == 'local':
                        t = fn.locals.get(st[1][1])
                        if t in WIDTH and t != v.t:
                            v = mkint(t, v.v)
                    self.store(fr, st[1], v)
                    continue
                if k == 'goto':
                    bb = st[1]
                    break
                if k == 'switch':
                    if self.steps > self.step_cap:
                        raise Hang('step cap of %d MIR steps exceeded in %s' % (self.step_cap, fn.name))
                    if time.time() - self.path_t0 > self.path_wall_cap:
                        raise Hang('one path ran for more than %d s (%d MIR steps so far) in %s'
                                   % (self.path_wall_cap, self.steps, fn.name))
                    bb = self.do_switch(fr, st)
                    break
                if k == 'call':
                    _, dest, fname, aops, tg = st
                    argv = [self.operand(fr, a) for a in aops]
                    if isinstance(fname, tuple):
                        fv = self.operand(fr, fname[1])
                        r = self.call_value(fv, argv)
                    else:
                        r = self.dispatch(fname, argv, fr)
                    if 'return' not in tg:
                        raise Panic('diverging call returned: ' + str(fname))
                    if dest is not None:
                        self.store(fr, dest, r)
                    bb = tg['return']
                    break
                if k == 'drop':
                    bb = st[2]['return']
                    break
                if k == 'assert':
                    c = self.tobool(self.operand(fr, st[1]))
                    if st[2]:
                        c = b_not(c)
                    if not self.branch(c):
                        raise Panic('assert failed: ' + st[3])
                    bb = st[4]['success']
                    break
                if k == 'term':
                    if st[1] == 'return':
                        return L.get(0, UNIT)
                    if st[1] == 'unreachable':
                        raise ModelGap('reached `unreachable` in ' + fn.name)
                    raise Panic('terminator ' + st[1])
                if k == 'setdiscr':
                    c, key = self.resolve(fr, st[1], create=True)
                    v = c[key] if not isinstance(c, dict) or key in c else None
                    if v is None:
                        v = Agg(self.place_type(fr, st[1]) or '?', 0, [])
                        c[key] = v
                    v.variant = self.variant_from_discr(v, st[2])
                    continue
                if k == 'assume':
                    continue
                raise ModelGap('statement ' + repr(st))
            else:
                raise ModelGap('fell off block in ' + fn.name)

    def variant_from_discr(self, v, d):
        return d

    def do_switch(self, fr, st):
        v = self.operand(fr, st[1])
        targets, other = st[2], st[3]
        if isinstance(v, bool):
            v = I('u8', int(v))
        elif not isinstance(v, I):
            # symbolic bool
            for key, t in targets:
                if key == 0:
                    return t if not self.branch(v) else other
                if key == 1:
                    return t if self.branch(v) else other
            raise ModelGap('switch on bool')
        if v.conc():
            w = WIDTH[v.t]
            vv = v.v & ((1 << w) - 1)
            for key, t in targets:
                if key & ((1 << w) - 1) == vv:
                    return t
            if other is None:
                raise ModelGap('switch without otherwise')
            return other
        w = v.v.size()
        for key, t in targets:
            if self.branch(v.v == z3.BitVecVal(key, w)):
                return t
        if other is None:
            raise ModelGap('switch without otherwise')
        return other

    def tobool(self, v):
        if isinstance(v, I):
            return bool(v.v) if v.conc() else (v.v != 0)
        return v

    # ---- places ------------------------------------------------------------
    def place_type(self, fr, p):
        if p[0] == 'local':
            return fr.fn.locals.get(p[1])
        if p[0] == 'field':
            return p[3]
        return None

    def resolve(self, fr, p, create=False):
        """-> (container, key)"""
        k = p[0]
        if k == 'local':
            return (fr.L, p[1])
        if k == 'deref':
            r = self.load(fr, p[1])
            if isinstance(r, Ref):
                return (r.cont, r.key)
            if isinstance(r, Transparent):
                return (r.cell, 0)
            if isinstance(r, Agg) and r.ty == 'Box':
                return (r.fields, 0)
            return ([r], 0)      # fat pointer views: deref yields itself
        if k == 'field':
            c, key = self.resolve(fr, p[1], create)
            v = c.get(key) if isinstance(c, dict) else c[key]
            if isinstance(v, Transparent):
                return (v.cell, 0) if v.cell[0] is not v else (c, key)
            if v is None:
                if not create:
                    raise ModelGap(f'field of uninitialised place in {fr.fn.name}: {p}')
                v = Agg(self.place_type(fr, p[1]) or '?', 0, [])
                c[key] = v
            if not isinstance(v, Agg):
                return self.field_of_model(v, p[2], c, key)
            while len(v.fields) <= p[2]:
                v.fields.append(None)
            return (v.fields, p[2])
        if k == 'downcast':
            return self.resolve(fr, p[1], create)
        if k == 'index':
            v = self.load(fr, p[1])
            i = self.concretize(fr.L[p[2]], 'index')
            return self.elem(v, i)
        if k == 'cindex':
            v = self.load(fr, p[1])
            n = self.len_of(v)
            return self.elem(v, (n - p[2]) if p[3] else p[2])
        raise ModelGap('place ' + repr(p))

    def field_of_model(self, v, n, c, key):
        raise ModelGap(f'field .{n} of model value {v!r}')

    def elem(self, v, i):
        if isinstance(v, Slice):
            if not (0 <= i < len(v)):
                raise Panic('index out of bounds')
            return (v.buf, v.a + i)
        if isinstance(v, VecV):
            if not (0 <= i < len(v.buf)):
                raise Panic('index out of bounds')
            return (v.buf, i)
        if isinstance(v, Agg):
            if not (0 <= i < len(v.fields)):
                raise Panic('index out of bounds')
            return (v.fields, i)
        raise ModelGap('index into ' + repr(v))

    def len_of(self, v):
        if isinstance(v, Slice):
            return len(v)
        if isinstance(v, VecV):
            return len(v.buf)
        if isinstance(v, Agg):
            return len(v.fields)
        raise ModelGap('len of ' + repr(v))

    def load(self, fr, p):
        if p[0] == 'index':
            i = fr.L.get(p[2])
            if isinstance(i, I) and not i.conc():
                # read through a symbolic index: an if-then-else chain over the elements instead of a fork
                # (MIR has already asserted idx < len)
                v = self.load(fr, p[1])
                items = M.as_slice(v).items() if not isinstance(v, Agg) else v.fields
                if items and all(isinstance(x, I) and x.t == items[0].t for x in items) and len(items) <= 256:
                    w = i.v.size()
                    tw = WIDTH[items[0].t]
                    if all(x.conc() for x in items) and tw <= w:
                        # concrete table: piecewise "index + constant" over runs of constant offset
                        # (exact; e.g. a hex-digit table becomes If(i <= 9, i + 48, i + 87))
                        runs = []
                        for k, x in enumerate(items):
                            off = x.v - k
                            if runs and runs[-1][2] == off:
                                runs[-1][1] = k
                            else:
                                runs.append([k, k, off])
                        idx = z3.Extract(tw - 1, 0, i.v) if tw < w else i.v
                        r = idx + z3.BitVecVal(runs[-1][2], tw)
                        for lo, hi, off in reversed(runs[:-1]):
                            r = z3.If(z3.ULE(i.v, z3.BitVecVal(hi, w)), idx + z3.BitVecVal(off, tw), r)
                        return from_z(items[0].t, r)
                    r = items[-1].z()
                    for k in range(len(items) - 2, -1, -1):
                        r = z3.If(i.v == z3.BitVecVal(k, w), items[k].z(), r)
                    return from_z(items[0].t, r)
        if p[0] == 'local':
            try:
                return fr.L[p[1]]
            except KeyError:
                raise ModelGap(f'read of uninitialised local _{p[1]} in {fr.fn.name}')
        c, k = self.resolve(fr, p)
        try:
            return c[k]
        except (KeyError, IndexError):
            raise ModelGap(f'read of uninitialised place {p} in {fr.fn.name}')

    def store(self, fr, p, v):
        if p[0] == 'local':
            fr.L[p[1]] = v
            return
        c, k = self.resolve(fr, p, create=True)
        c[k] = v

    def mk_closure(self, ty, fields, fr):
        """closure aggregate -> Closure with its body resolved relative to the defining function"""
        body = None
        if fr is not None:
            pre = fr.fn.name + '::{closure#'
            cands = [f for f in self.prog.fns if f.name.startswith(pre) and '::' not in f.name[len(pre):]
                     and f.params and strip_refs(f.params[0][1]) == ty]
            if len(cands) == 1:
                body = cands[0]
            elif len(cands) > 1:
                # the same macro expanded several times in one function: all closures share a span.
                # Pair the textual occurrences (block order) with the closure numbers (source order).
                sites = sorted((b, i) for b, sts in fr.fn.raw_blocks.items() for i, t in enumerate(sts) if ty in t)
                cands.sort(key=lambda f: int(f.name[len(pre):].rstrip('}')))
                if len(sites) == len(cands) and fr.site in sites:
                    body = cands[sites.index(fr.site)]
                else:
                    raise ModelGap('ambiguous closure ' + ty + ' in ' + fr.fn.name)
        if body is None:
            body = self.prog.closures.get(ty)
        if body is None:
            raise ModelGap('closure body not found: ' + ty)
        return Closure(ty, fields, body)

    def copy_val(self, v):
        if isinstance(v, Closure):
            return Closure(v.ty, list(v.fields), v.body)
        if isinstance(v, Agg):
            return Agg(v.ty, v.variant, [self.copy_val(x) for x in v.fields])
        return v

    def operand(self, fr, o):
        k = o[0]
        if k == 'move':
            return self.load(fr, o[1])
        if k == 'copy':
            v = self.load(fr, o[1])
            if isinstance(v, Agg) and v.fields:
                return self.copy_val(v)
            return v
        c = o[1]
        ck = c[0]
        if ck == 'int':
            return mkint(c[2], c[1])
        if ck == 'bool':
            return c[1]
        if ck == 'unit':
            return UNIT
        if ck == 'str':
            b = [I('u8', x) for x in c[1]]
            return Slice(b, 0, len(b), 'str')
        if ck == 'bstr':
            b = [I('u8', x) for x in c[1]]
            return Ref([Agg('array', 0, b)], 0)
        if ck == 'char':
            return I('char', c[1])
        if ck == 'path':
            return self.path_const(c[1], fr)
        raise ModelGap('operand ' + repr(o))

    def enum_variant(self, path):
        """(enum short name, variant index) if `path` names an enum variant"""
        c = self._ev_cache.get(path, 0)
        if c != 0:
            return c
        c = self._enum_variant(path)
        self._ev_cache[path] = c
        return c

    def _enum_variant(self, path):
        segs = split_path(strip_generics(path))
        if len(segs) >= 2:
            en, vn = segs[-2], segs[-1]
            ev = self.prog.enums.get(en)
            if ev is not None and vn in ev:
                return en, ev[vn]
        return None

    def path_const(self, p, fr=None):
        if p.startswith('ZeroSized: '):
            t = p[len('ZeroSized: '):]
            if t.startswith('{closure@'):
                return self.mk_closure(t, [], fr)
            return FnItem(t)
        if p.endswith(')') and not p.startswith('<'):
            # structured constant: Path::Variant(inner consts)
            from .mirparse import split_top, parse_const
            depth = 0
            for i in range(len(p) - 1, -1, -1):
                if p[i] == ')':
                    depth += 1
                elif p[i] == '(':
                    depth -= 1
                    if depth == 0:
                        break
            head, inner = p[:i], p[i + 1:-1]
            args = [self.operand(fr, ('const', parse_const(a))) for a in split_top(inner)]
            ev = self.enum_variant(head)
            if ev:
                return Agg(ev[0], ev[1], args)
            return Agg(type_last(head), 0, args)
        ev = self.enum_variant(p)
        if ev:
            from .program import TUPLE_VARIANTS
            segs = split_path(strip_generics(p))
            if (segs[-2], segs[-1]) in TUPLE_VARIANTS:
                return FnItem(p)
            return Agg(ev[0], ev[1], [])
        if type_last(p) in self.prog.unit_structs:
            return Agg(type_last(p), 0, [])
        if '::promoted[' in p or '{constant#' in p:
            f = self.prog.find_promoted(p)
            if f is None:
                raise ModelGap('promoted const not found: ' + p)
            return self.call_fn(f, [], None)
        m = M.CONSTS.get(strip_generics(p))
        if m is not None:
            return m(self)
        f = self.prog.by_name.get(p) or self.prog.by_name.get(strip_generics(p))
        if f and f[0].kind == 'const':
            return self.call_fn(f[0], [], None)
        f = self.prog.find_promoted(p)        # const items nested in methods / associated consts
        if f is not None and f.kind == 'const':
            return self.call_fn(f, [], None)
        return FnItem(p)

    # ---- rvalues ---------------------------------------------------------------
    def rvalue(self, fr, rv):
        k = rv[0]
        if k == 'use':
            return self.operand(fr, rv[1])
        if k == 'ref':
            p = rv[1]
            if p[0] == 'subslice':
                # &place[from..to] / [from..len-to] from a slice pattern
                v = self.load(fr, p[1])
                sl = M.as_slice(v)
                n = len(sl)
                lo = p[2]
                hi = (n - p[4]) if (p[3] or p[4] == 0) else p[4]
                if lo > hi or hi > n:
                    raise ModelGap('subslice out of range')
                return sl.sub(lo, hi)
            if p[0] == 'deref':
                inner = self.load(fr, p[1])
                if isinstance(inner, (Ref, Slice, Transparent, Obj)):
                    return inner          # reborrow
                if isinstance(inner, Agg) and inner.ty == 'Box':
                    return Ref(inner.fields, 0)
            c, key = self.resolve(fr, p, create=True)
            if isinstance(c, dict) and key not in c:
                c[key] = None
            return Ref(c, key)
        if k == 'binop':
            return self.binop(rv[1], self.operand(fr, rv[2]), self.operand(fr, rv[3]))
        if k == 'unop':
            v = self.operand(fr, rv[2])
            op = rv[1]
            if op == 'Not':
                if isinstance(v, I):
                    if v.conc():
                        return mkint(v.t, ~v.v)
                    return I(v.t, ~v.v)
                return b_not(v)
            if op == 'Neg':
                if v.conc():
                    return mkint(v.t, -v.v)
                return I(v.t, -v.v)
            if op == 'PtrMetadata':
                v = deref(v) if isinstance(v, Ref) else v
                return USZ(self.len_of(v))
            raise ModelGap('unop ' + op)
        if k == 'discr':
            v = self.load(fr, rv[1])
            if isinstance(v, Agg):
                return I('isize', v.variant)
            raise ModelGap('discriminant of ' + repr(v))
        if k == 'tuple':
            return Agg('tuple', 0, [self.operand(fr, o) for o in rv[1]])
        if k == 'array':
            return Agg('array', 0, [self.operand(fr, o) for o in rv[1]])
        if k == 'repeat':
            v = self.operand(fr, rv[1])
            n = rv[2].strip()
            m = re.match(r'^(?:const )?(\d+)(_usize)?$', n)
            if not m:
                raise ModelGap('repeat count ' + n)
            return Agg('array', 0, [self.copy_val(v) for _ in range(int(m.group(1)))])
        if k == 'struct':
            return Agg(type_last(rv[1]), 0, [self.operand(fr, o) for _, o in rv[2]])
        if k == 'closure':
            return self.mk_closure(rv[1], [self.operand(fr, o) for _, o in rv[2]], fr)
        if k == 'ctor':
            path = rv[1]
            args = [self.operand(fr, o) for o in rv[2]]
            ev = self.enum_variant(path)
            if ev:
                return Agg(ev[0], ev[1], args)
            return Agg(type_last(path), 0, args)
        if k == 'cast':
            return self.cast(self.operand(fr, rv[1]), rv[2], rv[3])
        if k == 'len':
            return USZ(self.len_of(self.load(fr, rv[1])))
        raise ModelGap('rvalue ' + repr(rv))

    def cast(self, v, t, kind):
        if kind.startswith('IntToInt') or (isinstance(v, (I, bool)) or z3.is_expr(v)) and t in WIDTH:
            if isinstance(v, bool):
                return mkint(t, int(v))
            if z3.is_expr(v) and z3.is_bool(v):
                return I(t, z3.If(v, z3.BitVecVal(1, WIDTH[t]), z3.BitVecVal(0, WIDTH[t])))
            if isinstance(v, I) and t in WIDTH:
                if v.conc():
                    return mkint(t, v.v)
                w0, w1 = WIDTH[v.t], WIDTH[t]
                if w1 > w0:
                    z = z3.SignExt(w1 - w0, v.v) if signed(v.t) else z3.ZeroExt(w1 - w0, v.v)
                elif w1 < w0:
                    z = z3.Extract(w1 - 1, 0, v.v)
                else:
                    z = v.v
                return I(t, z)
            if isinstance(v, Agg) and not v.fields and t in WIDTH:   # C-like enum as int
                return mkint(t, v.variant)
            raise ModelGap(f'cast {v!r} as {t}')
        if kind.startswith('PointerCoercion(Unsize'):
            tt = strip_refs(t)
            if tt.startswith('[') and isinstance(v, Ref):
                a = v.get()
                if isinstance(a, Agg):
                    return Slice(a.fields, 0, len(a.fields), 'slice')
            return v
        return v

    def binop(self, op, a, b):
        if not isinstance(a, I) or not isinstance(b, I):
            if isinstance(a, Agg) and isinstance(b, Agg) and op in ('Eq', 'Ne'):
                r = (a.variant == b.variant)
                return r if op == 'Eq' else not r
            if isinstance(a, I) or isinstance(b, I):
                raise ModelGap(f'binop {op} {a!r} {b!r}')
            if op == 'Eq':
                return b_eq(a, b)
            if op == 'Ne':
                return b_not(b_eq(a, b))
            if op == 'BitAnd':
                return b_and(a, b)
            if op == 'BitOr':
                return b_or(a, b)
            if op == 'BitXor':
                return b_not(b_eq(a, b))
            if op in ('Lt', 'Le', 'Gt', 'Ge'):
                ia = M.bool_to_int(a)
                ib = M.bool_to_int(b)
                return i_cmp(op, ia, ib)
            raise ModelGap('bool binop ' + op)
        t = a.t
        w = WIDTH[t]
        sg = signed(t)
        if op in ('Eq', 'Ne', 'Lt', 'Le', 'Gt', 'Ge'):
            return i_cmp(op, a, b)
        if op == 'Cmp':
            lt = i_cmp('Lt', a, b)
            eq = i_cmp('Eq', a, b)
            if isinstance(lt, bool) and isinstance(eq, bool):
                return Agg('Ordering', -1 if lt else (0 if eq else 1), [])
            if self.branch(lt):
                return Agg('Ordering', -1, [])
            if self.branch(eq):
                return Agg('Ordering', 0, [])
            return Agg('Ordering', 1, [])
        base = op.replace('WithOverflow', '').replace('Unchecked', '')
        wo = op.endswith('WithOverflow')
        if a.conc() and b.conc():
            x, y = a.v, b.v
            if base == 'Add':
                r = x + y
            elif base == 'Sub':
                r = x - y
            elif base == 'Mul':
                r = x * y
            elif base == 'BitAnd':
                r = x & y
            elif base == 'BitOr':
                r = x | y
            elif base == 'BitXor':
                r = x ^ y
            elif base == 'Shl':
                r = x << (y % w)
            elif base == 'Shr':
                r = x >> (y % w)
            elif base == 'Div':
                if y == 0:
                    raise Panic('division by zero')
                r = abs(x) // abs(y) * (1 if (x >= 0) == (y >= 0) else -1)
            elif base == 'Rem':
                if y == 0:
                    raise Panic('division by zero')
                r = abs(x) % abs(y) * (1 if x >= 0 else -1)
            else:
                raise ModelGap('binop ' + op)
            res = mkint(t, r)
            if wo:
                return Agg('tuple', 0, [res, res.v != r])
            return res
        x = a.z()
        y = b.z()
        if y.size() != x.size():
            y = z3.ZeroExt(x.size() - y.size(), y) if y.size() < x.size() else z3.Extract(x.size() - 1, 0, y)
        if base == 'Add':
            r = x + y
            if wo:
                no = z3.And(z3.BVAddNoOverflow(x, y, True), z3.BVAddNoUnderflow(x, y)) if sg \
                    else z3.BVAddNoOverflow(x, y, False)
        elif base == 'Sub':
            r = x - y
            if wo:
                no = z3.And(z3.BVSubNoOverflow(x, y), z3.BVSubNoUnderflow(x, y, True)) if sg \
                    else z3.BVSubNoUnderflow(x, y, False)
        elif base == 'Mul':
            r = x * y
            if wo:
                no = z3.And(z3.BVMulNoOverflow(x, y, True), z3.BVMulNoUnderflow(x, y)) if sg \
                    else z3.BVMulNoOverflow(x, y, False)
        elif base == 'BitAnd':
            r = x & y
        elif base == 'BitOr':
            r = x | y
        elif base == 'BitXor':
            r = x ^ y
        elif base == 'Shl':
            r = x << y
        elif base == 'Shr':
            r = (x >> y) if sg else z3.LShR(x, y)
        elif base == 'Div':
            r = (x / y) if sg else z3.UDiv(x, y)
        elif base == 'Rem':
            r = z3.SRem(x, y) if sg else z3.URem(x, y)
        else:
            raise ModelGap('binop ' + op)
        res = from_z(t, r)
        if wo:
            ov = z3.simplify(z3.Not(no))
            if z3.is_true(ov):
                ov = True
            elif z3.is_false(ov):
                ov = False
            return Agg('tuple', 0, [res, ov])
        return res

    # ---- calls -----------------------------------------------------------------------
    def dispatch(self, fname, argv, fr):
        if TRACE:
            print('  ' * self.depth + 'CALL ' + fname[:150] + ' ' + repr(argv)[:300])
            r = self._dispatch(fname, argv, fr)
            print('  ' * self.depth + '  -> ' + repr(r)[:300])
            return r
        return self._dispatch(fname, argv, fr)

    def _dispatch(self, fname, argv, fr):
        h = self._dcache.get(fname)
        if h is None:
            h = self._resolve_handler(fname)
            self._dcache[fname] = h
        kind, tgt, ci = h
        if kind == 'model':
            return tgt(self, ci, *argv)
        if kind == 'crate':
            return self.call_fn(tgt, argv, ci)
        if kind == 'ctor':
            return Agg(tgt[0], tgt[1], list(argv))
        m = M.fallback(self, ci, argv, fr)
        if m is not None:
            return m
        raise ModelGap(f'no model for call `{fname}` keys={ci.keys}')

    def _resolve_handler(self, fname):
        ci = callinfo(fname)
        st = ci.stripped
        # 1. symbolic intrinsics
        if st.startswith('verif_harness::sym::'):
            m = M.INTRINSICS.get(ci.method)
            if m is None:
                raise ModelGap('unknown sym intrinsic ' + st)
            return ('model', m, ci)
        # 2. crate bodies (a few models take precedence)
        f = self.prog.resolve(fname)
        if f is not None:
            pri = M.PRIORITY.get(ci.keys[0])
            if pri is not None:
                self.models_used.add(ci.keys[0])
                return ('model', pri, ci)
            return ('crate', f, ci)
        # 3. enum variant / tuple struct constructor used as a function
        ev = self.enum_variant(fname)
        if ev and ci.kind == 'path':
            return ('ctor', ev, ci)
        # 4. models
        for key in ci.keys:
            m = M.MODELS.get(key)
            if m is not None:
                self.models_used.add(key)
                return ('model', m, ci)
        return ('fallback', None, ci)

    def call_value(self, fv, args):
        """call a closure value / fn item with positional args"""
        fv = deref(fv)
        if isinstance(fv, FnItem):
            return self.dispatch(fv.path, args, None)
        if isinstance(fv, Closure):
            f = fv.body
            p0 = f.params[0][1]
            if p0.startswith('&'):
                self_arg = Ref([fv], 0)
            else:
                self_arg = fv
            return self.call_fn(f, [self_arg] + list(args), None)
        if isinstance(fv, Obj) and hasattr(fv, 'call'):
            return fv.call(self, args)
        raise ModelGap('call of ' + repr(fv))
