"""Maps, paths, io::Error, readers/writers, file-system stub, digest recorder, serde glue."""
import z3

from .values import *
from .program import type_last, generic_args, strip_generics
from .models import MODELS, PRIORITY, model, as_slice, items_of, pystr, lit, bytes_eq
from .models_iter import Iter, ListIter, iter_of, drain_iter


# ============================================================================ maps
def key_eq(E, a, b):
    from .models_core import val_eq
    return val_eq(E, a, b)


def map_lookup(E, m, key):
    """-> entry pair [k, v] or None (forks on symbolic key equality)"""
    for e in m.entries:
        if E.branch(key_eq(E, e[0], key)):
            return e
    return None


def map_insert(E, m, key, val):
    e = map_lookup(E, m, key)
    if e is not None:
        old = e[1]
        e[1] = val
        return some(old)
    m.entries.append([key, val])
    return none()


def map_order(E, m):
    """iteration order of the map's entries"""
    es = list(m.entries)
    if m.kind in ('IndexMap',):
        return es
    if m.kind in ('BTreeMap', 'BTreeSet'):
        from .models_core import val_lt
        out = []
        for e in es:                      # insertion sort, forking on symbolic comparisons
            i = len(out)
            while i > 0 and E.branch(val_lt(E, e[0], out[i - 1][0])):
                i -= 1
            out.insert(i, e)
        return out
    # HashMap: arbitrary order -> nondeterministic rotation / reversal chosen by the engine
    n = len(es)
    if n <= 1:
        return es
    mode = getattr(E, 'hash_order_modes', 3)
    k = 0
    while k < mode - 1:
        if E.branch(E.fresh_bool(f'hashorder=={k}')):
            break
        k += 1
    if k == 0:
        return es
    if k == 1:
        return es[::-1]
    r = n // 2
    return es[r:] + es[:r]


def map_iter(E, m, by_ref=True, what='pairs'):
    es = map_order(E, m)
    if m.kind.endswith('Set'):
        return ListIter([Ref(e, 0) if by_ref else e[0] for e in es])
    if by_ref:
        return ListIter([Agg('tuple', 0, [Ref(e, 0), Ref(e, 1)]) for e in es])
    return ListIter([Agg('tuple', 0, [e[0], e[1]]) for e in es])


for _T in ('HashMap', 'BTreeMap', 'IndexMap', 'HashSet', 'BTreeSet'):
    MODELS[f'{_T}::new'] = (lambda E, ci, _T=_T: MapV(_T))
    MODELS[f'{_T}::with_capacity'] = (lambda E, ci, n, _T=_T: MapV(_T))
    MODELS[f'{_T}::default'] = (lambda E, ci, _T=_T: MapV(_T))


def _m(*names):
    keys = []
    for n in names:
        for T in ('HashMap', 'BTreeMap', 'IndexMap'):
            keys.append(f'{T}::{n}')
    return model(*keys)


@_m('insert')
def _map_insert(E, ci, m, k, v):
    return map_insert(E, deref(m), k, v)


@model('HashSet::insert', 'BTreeSet::insert')
def _set_insert(E, ci, m, k):
    return map_insert(E, deref(m), k, UNIT).variant == 0


@model('HashSet::contains', 'BTreeSet::contains')
def _set_contains(E, ci, m, k):
    return map_lookup(E, deref(m), deref(k)) is not None


@_m('get')
def _map_get(E, ci, m, k):
    e = map_lookup(E, deref(m), deref(k))
    return some(Ref(e, 1)) if e is not None else none()


@_m('get_mut')
def _map_get_mut(E, ci, m, k):
    e = map_lookup(E, deref(m), deref(k))
    return some(Ref(e, 1)) if e is not None else none()


@_m('contains_key')
def _map_contains_key(E, ci, m, k):
    return map_lookup(E, deref(m), deref(k)) is not None


@_m('remove', 'shift_remove', 'swap_remove')
def _map_remove(E, ci, m, k):
    m = deref(m)
    e = map_lookup(E, m, deref(k))
    if e is None:
        return none()
    m.entries.remove(e)
    return some(e[1])


@_m('len')
def _map_len(E, ci, m):
    return USZ(len(deref(m).entries))


@_m('is_empty')
def _map_is_empty(E, ci, m):
    return len(deref(m).entries) == 0


@_m('iter', 'iter_mut')
def _map_iter(E, ci, m):
    return map_iter(E, deref(m), True)


@_m('values', 'values_mut')
def _map_values(E, ci, m):
    return ListIter([Ref(e, 1) for e in map_order(E, deref(m))])


@_m('keys')
def _map_keys(E, ci, m):
    return ListIter([Ref(e, 0) for e in map_order(E, deref(m))])


@_m('into_values')
def _map_into_values(E, ci, m):
    return ListIter([e[1] for e in map_order(E, m)])


@_m('into_keys')
def _map_into_keys(E, ci, m):
    return ListIter([e[0] for e in map_order(E, m)])


@_m('entry')
def _map_entry(E, ci, m, k):
    mv = deref(m)
    e = map_lookup(E, mv, k)
    if e is not None:
        return Agg('Entry', 0, [Obj('OccupiedEntry', map=mv, e=e)])
    return Agg('Entry', 1, [Obj('VacantEntry', map=mv, key=k)])


@model('OccupiedEntry::get_mut', 'OccupiedEntry::into_mut', 'OccupiedEntry::get')
def _occ_get_mut(E, ci, o):
    return Ref(deref(o).e, 1)


@model('OccupiedEntry::insert')
def _occ_insert(E, ci, o, v):
    e = deref(o).e
    old = e[1]
    e[1] = v
    return old


@model('OccupiedEntry::remove')
def _occ_remove(E, ci, o):
    o = deref(o)
    o.map.entries.remove(o.e)
    return o.e[1]


@model('VacantEntry::insert')
def _vac_insert(E, ci, o, v):
    o = deref(o)
    e = [o.key, v]
    o.map.entries.append(e)
    return Ref(e, 1)


@model('Entry::or_insert')
def _entry_or_insert(E, ci, en, v):
    if en.variant == 0:
        return Ref(en.fields[0].e, 1)
    return _vac_insert(E, ci, en.fields[0], v)


@model('Entry::or_insert_with')
def _entry_or_insert_with(E, ci, en, f):
    if en.variant == 0:
        return Ref(en.fields[0].e, 1)
    return _vac_insert(E, ci, en.fields[0], E.call_value(f, []))


@model('Entry::or_default')
def _entry_or_default(E, ci, en):
    if en.variant == 0:
        return Ref(en.fields[0].e, 1)
    from .models_core import default_for_type
    ga = generic_args(ci.self_ty) if ci.self_ty else ci.trait_args
    vt = [g for g in (ga or []) if not g.startswith("'")]
    return _vac_insert(E, ci, en.fields[0], default_for_type(E, vt[1]))


@model('Entry::and_modify')
def _entry_and_modify(E, ci, en, f):
    if en.variant == 0:
        E.call_value(f, [Ref(en.fields[0].e, 1)])
    return en


# ============================================================================ paths (unix)
def path_components(E, s):
    """std::path::Path::components for unix: list of (kind, Slice) with kind in
    RootDir / CurDir / ParentDir / Normal.  forks on '/' and '.' tests."""
    s = as_slice(s)
    n = len(s)
    out = []
    segs = []
    last = 0
    for i in range(n):
        if E.branch(i_eq(s.buf[s.a + i], U8(47))):
            segs.append((last, i))
            last = i + 1
    segs.append((last, n))
    has_root = n > 0 and len(segs) > 1 and segs[0] == (0, 0)
    if has_root:
        out.append(('RootDir', s.sub(0, 1)))
    first = True
    for k, (a, b) in enumerate(segs):
        if a == b:
            continue
        seg = s.sub(a, b)
        if b - a == 1 and E.branch(i_eq(seg.buf[seg.a], U8(46))):
            # "." is kept only as the very first component of a relative path
            if k == 0 and not has_root:
                out.append(('CurDir', seg))
            continue
        if b - a == 2 and E.branch(b_and(i_eq(seg.buf[seg.a], U8(46)), i_eq(seg.buf[seg.a + 1], U8(46)))):
            out.append(('ParentDir', seg))
            continue
        out.append(('Normal', seg))
    return out


COMP_IDX = {'Prefix': 0, 'RootDir': 1, 'CurDir': 2, 'ParentDir': 3, 'Normal': 4}


def comp_value(kind, sl):
    osl = Slice(sl.buf, sl.a, sl.b, 'OsStr')
    return Agg('Component', COMP_IDX[kind], [osl] if kind == 'Normal' else [])


def comp_os_str(c, raw=None):
    k = c.variant
    if k == 4:
        return c.fields[0]
    s = {1: '/', 2: '.', 3: '..'}[k]
    b = lit(s)
    return Slice(b, 0, len(b), 'OsStr')


def path_eq(E, a, b):
    ca = path_components(E, a)
    cb = path_components(E, b)
    if len(ca) != len(cb):
        return False
    cs = []
    for (ka, sa), (kb, sb) in zip(ca, cb):
        if ka != kb:
            return False
        if ka == 'Normal':
            cs.append(bytes_eq(sa.items(), sb.items()))
    return b_and(*cs)


class CompIter(ListIter):
    """Components / path::Iter: remembers where each component lies in the path for as_path()"""

    def __init__(self, items, raw, src):
        ListIter.__init__(self, items)
        self.raw = raw
        self.src = src

    def clone(self, E):
        c = CompIter(self.items, self.raw, self.src)
        c.i, c.j = self.i, self.j
        return c

    def as_path(self):
        r = self.raw[self.i:self.j]
        if not r:
            return Slice(self.src.buf, self.src.b, self.src.b, 'Path')
        return Slice(self.src.buf, r[0][1].a, r[-1][1].b, 'Path')


@model('Path::components', 'PathBuf::components')
def _components(E, ci, p):
    raw = path_components(E, p)
    return CompIter([comp_value(k, s) for k, s in raw], raw, as_slice(p))


@model('Path::iter', 'PathBuf::iter')
def _path_iter(E, ci, p):
    raw = path_components(E, p)
    return CompIter([comp_os_str(comp_value(k, s)) for k, s in raw], raw, as_slice(p))


@model('Components::as_path', 'path::Iter::as_path')
def _components_as_path(E, ci, it):
    return deref(it).as_path()


@model('Component::as_os_str')
def _comp_as_os_str(E, ci, c):
    return comp_os_str(deref(c))


@model('<Component as AsRef>::as_ref')
def _comp_as_ref(E, ci, c):
    s = comp_os_str(deref(c))
    return Slice(s.buf, s.a, s.b, 'Path' if ci.trait_args and type_last(ci.trait_args[0]) == 'Path' else 'OsStr')


@model('Path::file_name', 'PathBuf::file_name')
def _file_name(E, ci, p):
    cs = path_components(E, p)
    if cs and cs[-1][0] == 'Normal':
        s = cs[-1][1]
        return some(Slice(s.buf, s.a, s.b, 'OsStr'))
    return none()


def path_parent(E, p):
    s = as_slice(p)
    cs = path_components(E, s)
    if not cs:
        return None
    k, last = cs[-1]
    if k == 'RootDir':
        return None
    if len(cs) == 1:
        return Slice(s.buf, s.a, s.a, 'Path')
    prev = cs[-2][1]
    end = prev.b
    return Slice(s.buf, s.a, end, 'Path')


@model('Path::parent', 'PathBuf::parent')
def _parent(E, ci, p):
    r = path_parent(E, p)
    return some(r) if r is not None else none()


def pathbuf_push(E, pb, comp):
    c = deref(comp)
    if isinstance(c, Agg) and c.ty == 'Component':     # PathBuf: FromIterator<Component> / push(Component)
        comp = comp_os_str(c)
    comp = as_slice(comp)
    if len(comp) and E.branch(i_eq(comp.buf[comp.a], U8(47))):
        pb.buf[:] = list(comp.items())       # absolute path replaces
        return
    need_sep = len(pb.buf) > 0 and not E.branch(i_eq(pb.buf[-1], U8(47)))
    if need_sep:
        pb.buf.append(U8(47))
    pb.buf.extend(comp.items())


@model('PathBuf::push')
def _pathbuf_push(E, ci, pb, comp):
    pathbuf_push(E, deref(pb), comp)
    return UNIT


@model('Path::join', 'PathBuf::join')
def _path_join(E, ci, p, comp):
    pb = VecV(list(as_slice(p).items()), 'PathBuf')
    pathbuf_push(E, pb, comp)
    return pb


@model('PathBuf::pop')
def _pathbuf_pop(E, ci, pb):
    pb = deref(pb)
    r = path_parent(E, pb)
    if r is None:
        return False
    del pb.buf[len(r):]
    return True


@model('Path::is_absolute', 'Path::has_root')
def _is_absolute(E, ci, p):
    s = as_slice(p)
    return len(s) > 0 and E.branch(i_eq(s.buf[s.a], U8(47)))


@model('Path::is_relative')
def _is_relative(E, ci, p):
    return not _is_absolute(E, ci, p)


@model('Path::starts_with', 'PathBuf::starts_with')
def _path_starts_with(E, ci, p, q):
    a = path_components(E, p)
    b = path_components(E, q)
    if len(b) > len(a):
        return False
    cs = []
    for (ka, sa), (kb, sb) in zip(a, b):
        if ka != kb:
            return False
        if ka == 'Normal':
            cs.append(bytes_eq(sa.items(), sb.items()))
    return b_and(*cs)


@model('Path::ends_with', 'PathBuf::ends_with')
def _path_ends_with(E, ci, p, q):
    a = path_components(E, p)
    b = path_components(E, q)
    if len(b) > len(a):
        return False
    cs = []
    for (ka, sa), (kb, sb) in zip(a[len(a) - len(b):], b):
        if ka != kb:
            return False
        if ka == 'Normal':
            cs.append(bytes_eq(sa.items(), sb.items()))
    return b_and(*cs)


# ============================================================================ io::Error
IO_KIND = {'NotFound': 0, 'PermissionDenied': 1, 'Interrupted': 35, 'InvalidData': 21, 'InvalidInput': 20,
           'UnexpectedEof': 37, 'Other': 39, 'WriteZero': 23, 'AlreadyExists': 12}
_kind_ctr = [100]


def io_kind(E, name):
    ev = E.prog.enums.setdefault('ErrorKind', {})
    if name not in ev:
        ev[name] = IO_KIND.get(name, _kind_ctr[0])
        _kind_ctr[0] += 1
    return Agg('ErrorKind', ev[name], [])


def io_error(E, kind_name, payload=None):
    return Agg('io::Error', 0, [io_kind(E, kind_name), some(payload) if payload is not None else none()])


@model('Error::new', 'io::Error::new')
def _io_error_new(E, ci, kind, payload):
    return Agg('io::Error', 0, [kind, some(payload)])


@model('Error::other')
def _io_error_other(E, ci, payload):
    return io_error(E, 'Other', payload)


@model('Error::kind')
def _io_error_kind(E, ci, e):
    return deref(e).fields[0]


@model('Error::get_ref', 'Error::into_inner')
def _io_error_get_ref(E, ci, e):
    return deref(e).fields[1]


@model('<io::Error as Display>::fmt', '<Error as Display>::fmt')
def _io_error_display(E, ci, e, f):
    ev = deref(e)
    if isinstance(ev, Agg) and ev.ty == 'io::Error':
        from .models_fmt import fmt_value
        p = ev.fields[1]
        if p.variant:
            fmt_value(E, deref(f), 'Display', p.fields[0])
        else:
            deref(f).write(E, lit('<io error>'))
        return ok(UNIT)
    raise ModelGap('Display for ' + repr(ev))


@model('<ErrorKind as PartialEq>::eq')
def _kind_eq(E, ci, a, b):
    return deref(a).variant == deref(b).variant


def io_write_all(E, w, items):
    raise ModelGap('io::Write on ' + repr(deref(w)))


from . import models_env      # noqa: E402,F401


@model('IndexMap::last', 'IndexMap::last_mut', 'BTreeMap::last_key_value')
def _map_last(E, ci, m):
    es = map_order(E, deref(m))
    if not es:
        return none()
    e = es[-1]
    return some(Agg('tuple', 0, [Ref(e, 0), Ref(e, 1)]))


@model('IndexMap::first', 'IndexMap::first_mut', 'BTreeMap::first_key_value')
def _map_first(E, ci, m):
    es = map_order(E, deref(m))
    if not es:
        return none()
    e = es[0]
    return some(Agg('tuple', 0, [Ref(e, 0), Ref(e, 1)]))


@model('IndexMap::get_index', 'IndexMap::get_index_mut')
def _map_get_index(E, ci, m, i):
    es = deref(m).entries
    i = E.concretize(i)
    if i >= len(es):
        return none()
    return some(Agg('tuple', 0, [Ref(es[i], 0), Ref(es[i], 1)]))


@model('IndexMap::get_index_of')
def _map_get_index_of(E, ci, m, k):
    mv = deref(m)
    for i, e in enumerate(mv.entries):
        if E.branch(key_eq(E, e[0], deref(k))):
            return some(USZ(i))
    return none()


@model('IndexMap::get_full')
def _map_get_full(E, ci, m, k):
    mv = deref(m)
    for i, e in enumerate(mv.entries):
        if E.branch(key_eq(E, e[0], deref(k))):
            return some(Agg('tuple', 0, [USZ(i), Ref(e, 0), Ref(e, 1)]))
    return none()


@model('HashMap::retain', 'IndexMap::retain', 'BTreeMap::retain')
def _map_retain(E, ci, m, f):
    mv = deref(m)
    keep = []
    for e in list(mv.entries):
        if E.branch(E.call_value(f, [Ref(e, 0), Ref(e, 1)])):
            keep.append(e)
    mv.entries = keep
    return UNIT


@model('HashMap::extend', 'IndexMap::extend', 'BTreeMap::extend')
def _map_extend(E, ci, m, it):
    mv = deref(m)
    for x in drain_iter(E, iter_of(E, it)):
        map_insert(E, mv, x.fields[0], x.fields[1])
    return UNIT


@model('HashMap::clear', 'IndexMap::clear', 'BTreeMap::clear')
def _map_clear(E, ci, m):
    deref(m).entries = []
    return UNIT


@model('HashMap::drain', 'IndexMap::drain')
def _map_drain(E, ci, m, *a):
    mv = deref(m)
    es = map_order(E, mv)
    mv.entries = []
    return ListIter([Agg('tuple', 0, [e[0], e[1]]) for e in es])
